package main

import (
	"context"
	"fmt"
	"path/filepath"
	"strings"

	datatransfer "github.com/filecoin-project/go-data-transfer/v2"
	"github.com/filecoin-project/go-data-transfer/v2/channels"
)

// ---------- fsmreports: block reports, data limits, restarts against Caches.fire ----------

type rStep struct {
	kind   string // "report" | "limit" | "crash" | "event"
	k      int    // 0 queued, 1 sent, 2 received
	size   uint64
	index  int64
	unique bool
	limit  uint64
	ev     fsmEv
}

var kindNames = []string{"KQueued", "KSent", "KReceived"}

func (s rStep) coq() string {
	switch s.kind {
	case "report":
		return fmt.Sprintf("RReport (mkReport %s %s %s %s)", kindNames[s.k], coqN(s.size), coqZ(s.index), coqBool(s.unique))
	case "limit":
		return "RSetLimit " + coqN(s.limit)
	case "crash":
		return "RCrash"
	}
	return "REvent " + s.ev.coq()
}

func (s rStep) String() string {
	switch s.kind {
	case "report":
		return fmt.Sprintf("%s(size=%d,index=%d,unique=%v)", []string{"queued", "sent", "received"}[s.k], s.size, s.index, s.unique)
	case "limit":
		return fmt.Sprintf("setlimit(%d)", s.limit)
	case "crash":
		return "restart-process"
	}
	return "event:" + s.ev.String()
}

func (r *fsmRig) restart() {
	_ = r.ch.Stop(context.Background())
	ch, err := channels.New(r.ds, r.notify, r.env, r.self)
	if err != nil {
		panic(err)
	}
	r.ch = ch
	if err := ch.Start(context.Background()); err != nil {
		panic(err)
	}
}

type rCaseOut struct {
	id    int
	seed  string
	steps []rStep
	rets  []int
	final string
	cache string
}

func (c rCaseOut) coq() string {
	var st, rt []string
	for _, s := range c.steps {
		st = append(st, s.coq())
	}
	for _, r := range c.rets {
		rt = append(rt, coqN(uint64(r)))
	}
	return fmt.Sprintf("mkRCase %s %s\n  %s\n  %s %s %s", coqN(uint64(c.id)), c.seed, coqList(st), coqList(rt), c.final, c.cache)
}

func writeRCases(dir, name string, cases []rCaseOut) {
	const shard = 300
	for i := 0; i*shard < len(cases) || i == 0; i++ {
		lo, hi := i*shard, (i+1)*shard
		if hi > len(cases) {
			hi = len(cases)
		}
		var b strings.Builder
		b.WriteString("From Coq Require Import List NArith ZArith String.\nFrom DT Require Import GenStatus GenEvent FsmTypes GenFsm Fsm Machine View Caches CacheCorr.\nImport ListNotations.\nLocal Open Scope string_scope.\n\n")
		b.WriteString("Definition cases : list rcase := [\n")
		for j, c := range cases[lo:hi] {
			b.WriteString(c.coq())
			if j != hi-lo-1 {
				b.WriteString(";\n")
			}
		}
		b.WriteString("\n].\n\nDefinition M := Eval vm_compute in mismatches cases.\nPrint M.\n")
		writeFile(filepath.Join(dir, fmt.Sprintf("cases_%s_%03d.v", name, i)), b.String())
	}
}

func optZ(v int64, ok bool) string {
	if !ok {
		return "None"
	}
	return "(Some " + coqZ(v) + ")"
}

func transferring(s datatransfer.Status) bool {
	return s == datatransfer.Ongoing || s == datatransfer.ResponderCompleted || s == datatransfer.ResponderFinalizing || s == datatransfer.AwaitingAcceptance
}

// runReports executes the steps on a freshly seeded channel; the history stops early when the
// channel reaches a cleanup or terminal status (those tails are covered by fsmhist)
func (r *fsmRig) runReports(id int, label string, tid uint64, seed *channels.VerifChannelState, steps []rStep) rCaseOut {
	chid := r.create(tid, tokOfPeer(seed.Initiator), tokOfPeer(seed.Sender), tokOfPeer(seed.Recipient), 1, 2, datatransfer.TypedVoucher{Type: "T1", Voucher: nodeOf(3)})
	r.seed(chid, seed)
	out := rCaseOut{id: id, seed: coqChanRaw(seed, r.res)}
	prev := *seed
	// shape tracking for the direct monitors
	type dirState struct {
		maxPos     int64
		sumUnique  uint64
		contiguous bool
		sizeOf     map[int64]uint64
		uniqOf     map[int64]bool
		consistent bool
	}
	dirs := [3]*dirState{}
	for i := range dirs {
		dirs[i] = &dirState{contiguous: true, consistent: true, sizeOf: map[int64]uint64{}, uniqOf: map[int64]bool{}}
	}
	allTransferring := transferring(seed.Status)
	limitedKindsSeen := map[int]bool{} // the progress cache is shared by queued and received reports
	freshCounters := seed.Queued == 0 && seed.Sent == 0 && seed.Received == 0 && seed.QueuedBlocksTotal == 0 && seed.SentBlocksTotal == 0 && seed.ReceivedBlocksTotal == 0
	for _, s := range steps {
		cur, _ := r.rawState(chid)
		if cur.Status == datatransfer.Cancelling || cur.Status == datatransfer.Failing || cur.Status == datatransfer.Completing || isTerminal(cur.Status) {
			break
		}
		out.steps = append(out.steps, s)
		switch s.kind {
		case "report":
			var err error
			switch s.k {
			case 0:
				err = r.ch.DataQueued(chid, cidOf(1), s.size, s.index, s.unique)
			case 1:
				err = r.ch.DataSent(chid, cidOf(1), s.size, s.index, s.unique)
			case 2:
				err = r.ch.DataReceived(chid, cidOf(1), s.size, s.index, s.unique)
			}
			ret := 0
			if err == datatransfer.ErrPause {
				ret = 1
			} else if err != nil {
				ret = 2
			}
			out.rets = append(out.rets, ret)
			r.quiesce(chid)
			after, _ := r.rawState(chid)
			d := dirs[s.k]
			if sz, ok := d.sizeOf[s.index]; ok && (sz != s.size || d.uniqOf[s.index] != s.unique) {
				d.consistent = false
			}
			if s.index < 1 || s.index > d.maxPos+1 {
				d.contiguous = false
			}
			_, seenBefore := d.sizeOf[s.index]
			replayOfUnique := seenBefore && d.uniqOf[s.index]
			if _, ok := d.sizeOf[s.index]; !ok {
				d.sizeOf[s.index], d.uniqOf[s.index] = s.size, s.unique
				if s.unique {
					d.sumUnique += s.size
				}
			}
			if s.index > d.maxPos {
				d.maxPos = s.index
			}
			// C07: totals and indexes never decrease; a non-unique report never increases a byte total
			before := []uint64{prev.Queued, prev.Sent, prev.Received}
			now := []uint64{after.Queued, after.Sent, after.Received}
			bi := []int64{prev.QueuedBlocksTotal, prev.SentBlocksTotal, prev.ReceivedBlocksTotal}
			ni := []int64{after.QueuedBlocksTotal, after.SentBlocksTotal, after.ReceivedBlocksTotal}
			for j := 0; j < 3; j++ {
				if ni[j] < bi[j] {
					r.res.fail(monitorFailure{Property: "C07", CaseID: id, Signature: "index-decreased", What: "a block index total decreased", Input: label})
				}
				if j != s.k && (now[j] != before[j] || ni[j] != bi[j]) {
					r.res.fail(monitorFailure{Property: "C07", CaseID: id, Signature: "wrong-direction-counted", What: "a report changed another direction's totals", Input: label})
				}
			}
			if !s.unique && now[s.k] != before[s.k] {
				r.res.fail(monitorFailure{Property: "C07", CaseID: id, Signature: "non-unique-counted", What: "a non-unique block increased a byte total", Input: label})
			}
			if s.size < 1<<62 && now[s.k] < before[s.k] {
				r.res.fail(monitorFailure{Property: "C07", CaseID: id, Signature: "total-decreased", What: "a byte total decreased", Input: label})
			}
			if s.index <= bi[s.k] && s.index >= 1 && d.contiguous && d.consistent && now[s.k] != before[s.k] {
				r.res.fail(monitorFailure{Property: "C07", CaseID: id, Signature: "replayed-position-counted",
					What: "a position reported again increased a byte total", Input: label})
			}
			// whatever the gaps between the positions reported so far: a position that was already reported as a
			// unique block (it made progress then, or was already below the mark) never counts again
			if replayOfUnique && now[s.k] != before[s.k] {
				r.res.fail(monitorFailure{Property: "C07", CaseID: id, Signature: "replayed-position-counted-after-gap",
					What: "a position that had already been reported as a unique block increased a byte total when it was reported again", Input: label})
			}
			// C08: pause exactly when the limited total reaches a non-zero limit (domain of the property:
			// a transferring responder channel whose limited direction is the only one reported)
			if s.k != 1 {
				limitedKindsSeen[s.k] = true
			}
			if s.k != 1 && allTransferring && len(limitedKindsSeen) == 1 {
				limit := after.DataLimit
				if ret == 1 {
					if limit == 0 || now[s.k] < limit {
						r.res.fail(monitorFailure{Property: "C08", CaseID: id, Signature: "pause-below-limit",
							What: fmt.Sprintf("ErrPause returned with limit %d and total %d", limit, now[s.k]), Input: label})
					}
					if !after.ResponderPaused && transferring(prev.Status) {
						r.res.fail(monitorFailure{Property: "C08", CaseID: id, Signature: "pause-not-recorded",
							What: "ErrPause returned but the responder is not marked paused", Input: label})
					}
				}
				if ret == 0 && limit != 0 && transferring(prev.Status) && now[s.k] > before[s.k] && now[s.k] >= limit && s.size < 1<<62 {
					r.res.fail(monitorFailure{Property: "C08", CaseID: id, Signature: "no-pause-at-limit",
						What: fmt.Sprintf("a report brought the total to %d (limit %d) without returning ErrPause", now[s.k], limit), Input: label})
				}
			}
			prev = *after
			if !transferring(after.Status) {
				allTransferring = false
			}
		case "limit":
			err := r.ch.SetDataLimit(chid, s.limit)
			ret := 0
			if err != nil {
				ret = 2
			}
			out.rets = append(out.rets, ret)
			r.quiesce(chid)
			a, _ := r.rawState(chid)
			prev = *a
		case "crash":
			r.restart()
			a, _ := r.rawState(chid)
			if coqChanRaw(a, nil) != coqChanRaw(&prev, nil) {
				r.res.fail(monitorFailure{Property: "C08", CaseID: id, Signature: "restart-changed-record", What: "a process restart changed limit or progress", Input: label})
			}
		case "event":
			err := r.ch.VerifSend(chid, s.ev.Code, s.ev.args()...)
			ret := 0
			if err != nil {
				ret = 2
			}
			out.rets = append(out.rets, ret)
			r.quiesce(chid)
			a, _ := r.rawState(chid)
			prev = *a
			if !transferring(a.Status) {
				allTransferring = false
			}
		}
	}
	final, _ := r.rawState(chid)
	out.final = coqChanRaw(final, r.res)
	q, qok := r.ch.VerifIndexCache(datatransfer.DataQueued, chid)
	sn, sok := r.ch.VerifIndexCache(datatransfer.DataSent, chid)
	rc, rok := r.ch.VerifIndexCache(datatransfer.DataReceived, chid)
	lim, prog, pok := r.ch.VerifProgressCache(chid)
	pg := "None"
	if pok {
		pg = fmt.Sprintf("(Some (%s, %s))", coqN(lim), coqN(prog))
	}
	out.cache = fmt.Sprintf("(mkCacheObs %s %s %s %s)", optZ(q, qok), optZ(sn, sok), optZ(rc, rok), pg)
	// C07 closed formula on well-shaped histories of a fresh transferring channel
	if allTransferring && freshCounters {
		tot := []uint64{final.Queued, final.Sent, final.Received}
		idx := []int64{final.QueuedBlocksTotal, final.SentBlocksTotal, final.ReceivedBlocksTotal}
		for j := 0; j < 3; j++ {
			d := dirs[j]
			if d.contiguous && d.consistent {
				if tot[j] != d.sumUnique || idx[j] != d.maxPos {
					r.res.fail(monitorFailure{Property: "C07", CaseID: id, Signature: "totals-formula",
						What:  fmt.Sprintf("direction %d: byte total %d / index %d differ from the sum of unique distinct positions %d / highest position %d", j, tot[j], idx[j], d.sumUnique, d.maxPos),
						Input: label})
				}
			}
		}
	}
	return out
}

func runH1Reports(dir string, seedv uint64, tier string) {
	res := newResult("fsmreports", seedv, tier)
	rig := newFsmRig(res, 1, nil)
	r := newRng(seedv)
	var cases []rCaseOut
	id := 0
	tid := uint64(2000000)
	run := func(kind string, st datatransfer.Status, variant int, steps []rStep, fresh bool) {
		tid++
		id++
		var names []string
		for _, s := range steps {
			names = append(names, s.String())
		}
		label := fmt.Sprintf("%s start=%s variant=%d steps=[%s]", kind, statusName(st), variant, strings.Join(names, " "))
		res.CaseLabels = append(res.CaseLabels, label)
		if onlyCase != 0 && onlyCase != id {
			return
		}
		seed := seedVariants(st, tid, 1)[variant]
		if fresh {
			seed = seedVariants(st, tid, 1)[0]
		}
		c := rig.runReports(id, label, tid, seed, steps)
		cases = append(cases, c)
		res.hist("kind:" + kind)
		res.hist(fmt.Sprintf("len:%02d", len(c.steps)))
		for _, x := range c.rets {
			res.hist(fmt.Sprintf("ret:%d", x))
		}
		if len(c.steps) >= 2 {
			res.distinct(label)
		}
		if id%401 == 1 {
			res.sample(map[string]interface{}{"case": label, "returns": c.rets, "cache": c.cache})
		}
	}
	sizeOf := func(pos int64) uint64 { return []uint64{0, 10, 200, 3000, 40000, 500000}[pos] }
	// (a) C07 enumerated: all report sequences over positions {1,2,3} x unique, each kind
	maxLen := 3
	if tier == "thorough" {
		maxLen = 5
	}
	for k := 0; k < 3; k++ {
		var rec func(prefix []rStep)
		rec = func(prefix []rStep) {
			if len(prefix) > 0 {
				run("enum-reports", datatransfer.Ongoing, 0, append([]rStep(nil), prefix...), true)
			}
			if len(prefix) == maxLen {
				return
			}
			for pos := int64(1); pos <= 3; pos++ {
				for _, u := range []bool{true, false} {
					rec(append(prefix, rStep{kind: "report", k: k, size: sizeOf(pos), index: pos, unique: u}))
				}
			}
		}
		rec(nil)
	}
	// (b) C08 enumerated: block sizes from {1,2,3,5}, limit at every prefix sum -1/0/+1 and 0, restart between any two reports
	blockLen := 3
	if tier == "thorough" {
		blockLen = 5
	}
	sizes := []uint64{1, 2, 3, 5}
	var recB func(prefix []uint64)
	recB = func(prefix []uint64) {
		if len(prefix) > 0 {
			limits := map[uint64]bool{0: true}
			var sum uint64
			for _, s := range prefix {
				sum += s
				limits[sum] = true
				limits[sum+1] = true
				if sum > 0 {
					limits[sum-1] = true
				}
			}
			for l := range limits {
				for _, k := range []int{0, 2} {
					for crashAt := -1; crashAt < len(prefix)-1; crashAt++ {
						if crashAt >= 0 && tier != "thorough" && (l+uint64(crashAt))%3 != 0 {
							continue
						}
						steps := []rStep{{kind: "limit", limit: l}}
						for i, s := range prefix {
							steps = append(steps, rStep{kind: "report", k: k, size: s, index: int64(i + 1), unique: true})
							if i == crashAt {
								steps = append(steps, rStep{kind: "crash"})
							}
						}
						run("enum-limits", datatransfer.Ongoing, 0, steps, true)
					}
				}
			}
		}
		if len(prefix) == blockLen {
			return
		}
		for _, s := range sizes {
			recB(append(prefix, s))
		}
	}
	recB(nil)
	// (c) generated: replays, duplicates, decreasing indexes, non-unique, extreme sizes, limit changes, restarts, status moves
	ng := 400
	if tier == "thorough" {
		ng = 8000
	}
	otherEvents := []datatransfer.EventCode{datatransfer.Accept, datatransfer.TransferInitiated, datatransfer.PauseInitiator, datatransfer.ResumeInitiator,
		datatransfer.PauseResponder, datatransfer.ResumeResponder, datatransfer.SetRequiresFinalization, datatransfer.NewVoucherResult,
		datatransfer.Restart, datatransfer.Disconnected, datatransfer.FinishTransfer, datatransfer.ResponderBeginsFinalization, datatransfer.ResponderCompletes, datatransfer.DataLimitExceeded}
	starts := []datatransfer.Status{datatransfer.Ongoing, datatransfer.Ongoing, datatransfer.Ongoing, datatransfer.AwaitingAcceptance, datatransfer.ResponderCompleted,
		datatransfer.ResponderFinalizing, datatransfer.Requested, datatransfer.Queued, datatransfer.TransferFinished, datatransfer.Finalizing}
	for i := 0; i < ng; i++ {
		n := 3 + r.intn(18)
		k := r.intn(3)
		pos := int64(0)
		var steps []rStep
		for j := 0; j < n; j++ {
			switch x := r.intn(100); {
			case x < 62:
				kk := k
				if r.chance(8) {
					kk = r.intn(3)
				}
				var idx int64
				switch y := r.intn(100); {
				case y < 60:
					pos++
					idx = pos
				case y < 80: // replay from an earlier position
					if pos > 0 {
						pos = int64(r.intn(int(pos))) + 1
					} else {
						pos = 1
					}
					idx = pos
				case y < 90:
					idx = int64(r.intn(8)) - 1 // arbitrary, possibly 0 or negative
				default:
					idx = pos + int64(r.intn(3)) // duplicate or gap
				}
				size := uint64(r.intn(500))
				switch r.intn(12) {
				case 0:
					size = 0
				case 1:
					size = 1 << 63
				}
				steps = append(steps, rStep{kind: "report", k: kk, size: size, index: idx, unique: !r.chance(20)})
			case x < 74:
				steps = append(steps, rStep{kind: "limit", limit: uint64(r.intn(3000)) * uint64(r.intn(2))})
			case x < 84:
				steps = append(steps, rStep{kind: "crash"})
			default:
				steps = append(steps, rStep{kind: "event", ev: randEvent(r, otherEvents)})
			}
		}
		run("gen", starts[r.intn(len(starts))], r.intn(4), steps, r.chance(50))
	}
	res.Cases = len(cases)
	res.Exhaustive = false
	res.Rule = fmt.Sprintf("enumerated: every report sequence of length <= %d over positions {1,2,3} x unique for each direction; every block-size sequence of length <= %d over {1,2,3,5} x limit in {0, prefix sums -1/0/+1} x {queued, received} x restart point; generated: 3-20 steps mixing reports (replays, gaps, duplicates, negative indexes, sizes 0 and 2^63), SetDataLimit, process restarts and other events; non-trivial = at least 2 steps executed", maxLen, blockLen)
	writeRCases(dir, "fsmreports", cases)
	res.write(dir)
	_ = rig.ch.Stop(context.Background())
}
