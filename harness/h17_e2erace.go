package main

import (
	"fmt"
	"os"
	"path/filepath"
	"runtime"
	"time"

	"github.com/ipld/go-ipld-prime/datamodel"
	basicnode "github.com/ipld/go-ipld-prime/node/basic"
	"github.com/ipld/go-ipld-prime/traversal/selector"
	"github.com/ipld/go-ipld-prime/traversal/selector/builder"
)

// ---------- e2erace: real transfers between two real nodes under the race detector (C20) ----------
//
// The stress suite drives the manager and the transport over doubles; here real graphsync and
// libp2p goroutines call into the library while the application pauses, resumes, raises limits,
// cuts the link and restarts processes.  Only the race detector's reports are judged (and only
// those where the racing access itself is library code); completion is not.
func runE2ERace(dir string, seed uint64, tier string) {
	res := newResult("e2erace", seed, tier)
	r := newRng(seed)
	nPlain, nRestart := 14, 8
	if tier == "thorough" {
		nPlain, nRestart = 150, 80
	}
	sel := func() datamodel.Node {
		ssb := builder.NewSelectorSpecBuilder(basicnode.Prototype.Any)
		return ssb.ExploreRecursive(selector.RecursionLimitNone(), ssb.ExploreAll(ssb.ExploreRecursiveEdge())).Node()
	}()
	scratch := newResult("e2erace-scratch", seed, tier) // the functional monitors belong to C01 / C07 / C10 and are judged in their own suites
	id := 0
	for i := 0; i < nPlain; i++ {
		id++
		data, pat := e2ePayload(r)
		sc := e2eScenario{Pull: r.chance(50), Finalize: r.chance(30), ForcePause: r.chance(15), Pattern: pat, Size: len(data), OwnStore: r.chance(30)}
		if r.chance(45) {
			sc.Limit = uint64(500 + r.intn(4000))
			sc.LimitStep = uint64(1000 + r.intn(6000))
		}
		if r.chance(40) {
			sc.PauseInit = 1 + r.intn(4)
		}
		if r.chance(40) {
			sc.PauseResp = 1 + r.intn(4)
		}
		res.CaseLabels = append(res.CaseLabels, "transfer: "+sc.String())
		if onlyCase != 0 && onlyCase != id {
			continue
		}
		caseID, caseSc, caseData := id, sc, data
		e2eWatchdog(res, dir, caseID, sc.String(), func() {
			runE2ECase(scratch, caseID, caseSc.String(), caseSc, caseData, sel, func(int, string, string, string, interface{}, interface{}) {})
		})
		res.hist(fmt.Sprintf("transfer pull:%v", sc.Pull))
		res.distinct(sc.String())
	}
	for i := 0; i < nRestart; i++ {
		id++
		var data []byte
		var pat string
		for len(data) < 5*1024 {
			data, pat = e2ePayload(r)
		}
		sc := e2eRestartScenario{Pull: r.chance(50), Pattern: pat, Size: len(data), CutAfter: 1 + r.intn(5), KillInit: r.chance(40), KillResp: r.chance(40),
			RestartBy: []string{"initiator", "initiator", "responder"}[r.intn(3)], Finalize: r.chance(25), OwnStore: r.chance(25)}
		res.CaseLabels = append(res.CaseLabels, "interrupted: "+sc.String())
		if onlyCase != 0 && onlyCase != id {
			continue
		}
		caseID, caseSc, caseData := id, sc, data
		e2eWatchdog(res, dir, caseID, sc.String(), func() { runE2ERestartCase(scratch, caseID, caseSc.String(), caseSc, caseData, sel) })
		res.hist(fmt.Sprintf("interrupted pull:%v", sc.Pull))
		res.distinct(sc.String())
	}
	races := collectRaceReportsMode(dir, true)
	for _, rep := range races {
		res.fail(monitorFailure{Property: "C20", CaseID: 0, Signature: "data-race:" + rep.site, What: "the race detector reported a data race in library code during real transfers:\n" + rep.text, Input: "e2erace suite (goroutine interleaving chosen by the scheduler)"})
	}
	res.Cases = id
	res.Extra["race_detector_enabled"] = raceEnabled
	res.Extra["race_reports_in_library"] = len(races)
	res.Rule = "race-instrumented binary: plain transfers (push / pull, limits raised in rounds, finalization, forced pause, pauses by either side, per-channel store) and interrupted transfers (link cut, process restarts, restart by either side) between two real managers over real graphsync and a libp2p mock network; judged: data races whose racing access is library code; interleavings are whatever the scheduler produces (a test, not a proof)"
	res.write(dir)
}

// e2eWatchdog runs one real-transfer scenario; if it does not come back (every wait inside a scenario
// has a deadline of its own, so this means a call into the library or its stack never returned) the
// goroutine dump is kept next to the results, a C20 failure is recorded and the scenario is abandoned.
func e2eWatchdog(res *suiteResult, dir string, id int, label string, f func()) bool {
	done := make(chan struct{})
	go func() {
		defer close(done)
		f()
	}()
	select {
	case <-done:
		return true
	case <-time.After(75 * time.Second):
		buf := make([]byte, 8<<20)
		n := runtime.Stack(buf, true)
		path := filepath.Join(dir, fmt.Sprintf("hang-%s-%d.txt", res.Suite, id))
		_ = os.WriteFile(path, buf[:n], 0o644)
		res.fail(monitorFailure{Property: "C20", CaseID: id, Signature: "real-transfer-scenario-hangs", What: "a scenario between two real nodes did not return within 75s although every wait in it has a deadline: a call into the library never returned (goroutine dump in " + path + ")", Input: label})
		res.hist("scenario-hung")
		return false
	}
}
