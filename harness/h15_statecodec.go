package main

import (
	"bytes"
	"fmt"
	"math"
	"path/filepath"
	"strings"
	"time"

	"github.com/ipfs/go-cid"
	"github.com/ipld/go-ipld-prime"
	"github.com/ipld/go-ipld-prime/codec"
	"github.com/ipld/go-ipld-prime/codec/dagcbor"
	"github.com/ipld/go-ipld-prime/datamodel"
	"github.com/ipld/go-ipld-prime/node/basicnode"
	"github.com/ipld/go-ipld-prime/node/bindnode"
	"github.com/ipld/go-ipld-prime/schema"
	peer "github.com/libp2p/go-libp2p/core/peer"
	cbg "github.com/whyrusleeping/cbor-gen"

	datatransfer "github.com/filecoin-project/go-data-transfer/v2"
	"github.com/filecoin-project/go-data-transfer/v2/channels"
)

// ---------- H15: the datastore record codec (C06: what was written is read back equal) ----------

func coqI64(v int64) string {
	if v >= 0 {
		return fmt.Sprintf("(false, %d)", v)
	}
	return fmt.Sprintf("(true, %d)", uint64(-(v + 1)))
}

// long runs of one byte are printed as (rep n c) to keep the cases small
func coqBytesRep(b []byte) string {
	if len(b) > 64 {
		same := true
		for _, c := range b {
			if c != b[0] {
				same = false
				break
			}
		}
		if same {
			return fmt.Sprintf("(rep %d %d)", len(b), b[0])
		}
	}
	return coqBytes(b)
}

// the value a stored node stands for: a schema-typed node is stored in its representation form
func repr(n datamodel.Node) datamodel.Node {
	if tn, ok := n.(schema.TypedNode); ok {
		return tn.Representation()
	}
	return n
}

func coqNodeOrNull(n datamodel.Node) string {
	if n == nil {
		return "NNull"
	}
	return coqNode(repr(n))
}

// a schema-typed voucher whose representation (a tuple) differs from its type-level view (a map)
type tupleVoucher struct {
	Amount int64
	Memo   string
}

var tupleVoucherType = func() schema.Type {
	ts, err := ipld.LoadSchemaBytes([]byte("type TupleVoucher struct {\n  Amount Int\n  Memo String\n} representation tuple\n"))
	if err != nil {
		panic(err)
	}
	return ts.TypeByName("TupleVoucher")
}()

func typedVoucherNode(r *rng) datamodel.Node {
	v := &tupleVoucher{Amount: int64(r.intn(1000)) - 500, Memo: []string{"", "memo", "ü"}[r.intn(3)]}
	return bindnode.Wrap(v, tupleVoucherType)
}

func coqTime(t cbg.CborTime) string { return coqI64(t.Time().UnixNano()) }

func coqCState(s *channels.VerifChannelState) string {
	bc := "None"
	if s.BaseCid.Defined() {
		bc = "(Some " + coqBytes(s.BaseCid.Bytes()) + ")"
	}
	var vs, rs []string
	for _, v := range s.Vouchers {
		vs = append(vs, fmt.Sprintf("(mkEV %s %s)", coqBytesRep([]byte(v.Type)), coqNodeOrNull(v.Voucher.Node)))
	}
	for _, v := range s.VoucherResults {
		rs = append(rs, fmt.Sprintf("(mkEV %s %s)", coqBytesRep([]byte(v.Type)), coqNodeOrNull(v.VoucherResult.Node)))
	}
	stages := "None"
	if s.Stages != nil {
		var sts []string
		for _, st := range s.Stages.Stages {
			if st == nil {
				sts = append(sts, "None")
				continue
			}
			var lgs []string
			for _, l := range st.Logs {
				if l == nil {
					lgs = append(lgs, "None")
					continue
				}
				lgs = append(lgs, fmt.Sprintf("(Some (mkLog %s %s))", coqBytesRep([]byte(l.Log)), coqTime(l.UpdatedTime)))
			}
			sts = append(sts, fmt.Sprintf("(Some (mkStage %s %s %s %s %s))", coqBytesRep([]byte(st.Name)), coqBytesRep([]byte(st.Description)),
				coqTime(st.CreatedTime), coqTime(st.UpdatedTime), coqList(lgs)))
		}
		stages = "(Some " + coqList(sts) + ")"
	}
	return fmt.Sprintf("(mkCState %s %d %s %s %s %s %s %s %d %d %d %d %d %s %s %s %s %s %s %d %s %s %s %s)",
		coqBytesRep([]byte(s.SelfPeer)), uint64(s.TransferID), coqBytesRep([]byte(s.Initiator)), coqBytesRep([]byte(s.Responder)), bc,
		coqNodeOrNull(s.Selector.Node), coqBytesRep([]byte(s.Sender)), coqBytesRep([]byte(s.Recipient)),
		s.TotalSize, uint64(s.Status), s.Queued, s.Sent, s.Received, coqBytesRep([]byte(s.Message)),
		coqList(vs), coqList(rs), coqI64(s.ReceivedBlocksTotal), coqI64(s.QueuedBlocksTotal), coqI64(s.SentBlocksTotal),
		s.DataLimit, coqBool(s.RequiresFinalization), coqBool(s.ResponderPaused), coqBool(s.InitiatorPaused), stages)
}

func randU64(r *rng) uint64 {
	switch r.intn(7) {
	case 0:
		return 0
	case 1:
		return math.MaxUint64
	case 2:
		return 1 << 63
	case 3:
		return r.next()
	case 4:
		return []uint64{23, 24, 255, 256, 65535, 65536, 1<<32 - 1, 1 << 32}[r.intn(8)]
	}
	return uint64(r.intn(100000))
}

func randI64(r *rng) int64 {
	switch r.intn(7) {
	case 0:
		return 0
	case 1:
		return math.MaxInt64
	case 2:
		return math.MinInt64
	case 3:
		return int64(r.next())
	case 4:
		return -int64(r.intn(300)) - 1
	}
	return int64(r.intn(100000))
}

func randPeerBytes(r *rng) peer.ID {
	switch r.intn(5) {
	case 0:
		return peerOf(1 + r.intn(8))
	case 1:
		return ""
	case 2:
		b := make([]byte, 1+r.intn(40))
		for i := range b {
			b[i] = byte(r.intn(256))
		}
		return peer.ID(b)
	}
	return peerOf(1 + r.intn(4))
}

func randText(r *rng, boundary bool) string {
	if boundary {
		return strings.Repeat("m", []int{8191, 8192, 8193, 9000}[r.intn(4)])
	}
	ss := []string{"", "x", "data transfer erred: something went wrong", "日本語 ü", strings.Repeat("q", 23), strings.Repeat("w", 24), strings.Repeat("e", 255), strings.Repeat("r", 256), "with \"quotes\" and \x00 bytes \xff"}
	return ss[r.intn(len(ss))]
}

func randStages(r *rng, boundary bool) *datatransfer.ChannelStages {
	if r.chance(10) {
		return nil
	}
	st := &datatransfer.ChannelStages{}
	n := r.intn(5)
	for i := 0; i < n; i++ {
		if r.chance(4) {
			st.Stages = append(st.Stages, nil)
			continue
		}
		s := &datatransfer.ChannelStage{Name: randText(r, false), Description: randText(r, boundary && r.chance(20)),
			CreatedTime: cbg.CborTime(time.Unix(0, randI64(r))), UpdatedTime: cbg.CborTime(time.Unix(0, randI64(r)))}
		m := r.intn(4)
		for j := 0; j < m; j++ {
			if r.chance(4) {
				s.Logs = append(s.Logs, nil)
				continue
			}
			s.Logs = append(s.Logs, &datatransfer.Log{Log: randText(r, boundary && r.chance(20)), UpdatedTime: cbg.CborTime(time.Unix(0, randI64(r)))})
		}
		st.Stages = append(st.Stages, s)
	}
	return st
}

func randCState(r *rng, boundary bool, sliceBoundary ...bool) *channels.VerifChannelState {
	s := &channels.VerifChannelState{
		SelfPeer: randPeerBytes(r), TransferID: datatransfer.TransferID(randU64(r)), Initiator: randPeerBytes(r), Responder: randPeerBytes(r),
		Sender: randPeerBytes(r), Recipient: randPeerBytes(r), TotalSize: randU64(r), Status: datatransfer.Status(r.intn(22)),
		Queued: randU64(r), Sent: randU64(r), Received: randU64(r), Message: randText(r, boundary && r.chance(40)),
		ReceivedBlocksTotal: randI64(r), QueuedBlocksTotal: randI64(r), SentBlocksTotal: randI64(r), DataLimit: randU64(r),
		RequiresFinalization: r.chance(50), ResponderPaused: r.chance(50), InitiatorPaused: r.chance(50),
	}
	if r.chance(3) {
		s.Status = datatransfer.Status(randU64(r))
	}
	if !r.chance(4) {
		s.BaseCid = randCid(r)
	}
	if !r.chance(10) {
		s.Selector = channels.VerifNode{Node: randTopNode(r)}
	} else if r.chance(50) {
		s.Selector = channels.VerifNode{Node: datamodel.Null}
	}
	types := []string{"", "T1", "voucher/type/ü", strings.Repeat("Y", 30)}
	nv := r.intn(4)
	for i := 0; i < nv; i++ {
		v := channels.VerifEncodedVoucher{Type: datatransfer.TypeIdentifier(types[r.intn(len(types))])}
		if r.chance(15) {
			v.Voucher = channels.VerifNode{Node: typedVoucherNode(r)}
		} else if !r.chance(10) {
			v.Voucher = channels.VerifNode{Node: randTopNode(r)}
		}
		s.Vouchers = append(s.Vouchers, v)
	}
	nr := r.intn(4)
	for i := 0; i < nr; i++ {
		v := channels.VerifEncodedVoucherResult{Type: datatransfer.TypeIdentifier(types[r.intn(len(types))])}
		if r.chance(15) {
			v.VoucherResult = channels.VerifNode{Node: typedVoucherNode(r)}
		} else if !r.chance(10) {
			v.VoucherResult = channels.VerifNode{Node: randTopNode(r)}
		}
		s.VoucherResults = append(s.VoucherResults, v)
	}
	if len(sliceBoundary) > 0 && sliceBoundary[0] {
		// the slice limit: 8192 entries are written, 8193 refused (two records per 240: the terms are large)
		n := 8192 + r.intn(2)
		s.Vouchers = nil
		for i := 0; i < n; i++ {
			s.Vouchers = append(s.Vouchers, channels.VerifEncodedVoucher{Type: "T"})
		}
	}
	if boundary && r.chance(10) {
		s.Vouchers = append(s.Vouchers, channels.VerifEncodedVoucher{Type: datatransfer.TypeIdentifier(strings.Repeat("t", 8192+r.intn(2)))})
	}
	s.Stages = randStages(r, boundary)
	return s
}

// the top-level map of a record, decoded, with its entries rearranged; nested values keep their bytes
type kvNode struct {
	k string
	v datamodel.Node
}

func entriesOf(b []byte) []kvNode {
	nb := basicnode.Prototype.Any.NewBuilder()
	if err := dagcbor.Decode(nb, bytes.NewReader(b)); err != nil {
		return nil
	}
	n := nb.Build()
	if n.Kind() != datamodel.Kind_Map {
		return nil
	}
	var es []kvNode
	it := n.MapIterator()
	for !it.Done() {
		k, v, _ := it.Next()
		ks, _ := k.AsString()
		es = append(es, kvNode{ks, v})
	}
	return es
}

func encodeEntries(es []kvNode) []byte {
	// duplicates are allowed here: written by hand, header first
	var out bytes.Buffer
	cw := cbg.NewCborWriter(&out)
	_ = cw.WriteMajorTypeHeader(cbg.MajMap, uint64(len(es)))
	for _, e := range es {
		_ = cw.WriteMajorTypeHeader(cbg.MajTextString, uint64(len(e.k)))
		_, _ = cw.WriteString(e.k)
		_ = dagcbor.EncodeOptions{AllowLinks: true, MapSortMode: codec.MapSortMode_RFC7049}.Encode(e.v, &out)
	}
	return out.Bytes()
}

type readOutcome struct {
	kind  string // rejected | unencodable | bytes
	bytes []byte
	err   string
}

func (o readOutcome) coq() string {
	switch o.kind {
	case "rejected":
		return "ORejected"
	case "unencodable":
		return "OUnencodable"
	}
	return "(OBytes " + coqBytes(o.bytes) + ")"
}

func readRecord(in []byte) (o readOutcome, st *channels.VerifChannelState, panicked string) {
	defer func() {
		if p := recover(); p != nil {
			panicked = fmt.Sprint(p)
			o = readOutcome{kind: "rejected"}
		}
	}()
	var s channels.VerifChannelState
	if err := s.UnmarshalCBOR(bytes.NewReader(in)); err != nil {
		return readOutcome{kind: "rejected", err: err.Error()}, nil, ""
	}
	var out bytes.Buffer
	if err := s.MarshalCBOR(&out); err != nil {
		return readOutcome{kind: "unencodable", err: err.Error()}, &s, ""
	}
	return readOutcome{kind: "bytes", bytes: out.Bytes()}, &s, ""
}

func runStateCodec(dir string, seed uint64, tier string) {
	res := newResult("statecodec", seed, tier)
	r := newRng(seed)
	n := 240
	if tier == "thorough" {
		n = 4000
	}
	fail := func(id int, sig, what, input string, obs, exp interface{}) {
		res.fail(monitorFailure{Property: "C06", CaseID: id, Signature: sig, What: what, Input: input, Observed: obs, Expected: exp})
	}
	var lines []string
	for id := 1; id <= n; id++ {
		boundary := id%12 == 0
		s := randCState(r, boundary, id%240 == 24 || id%240 == 36)
		label := fmt.Sprintf("record #%d status=%d vouchers=%d results=%d boundary=%v", id, uint64(s.Status), len(s.Vouchers), len(s.VoucherResults), boundary)
		res.CaseLabels = append(res.CaseLabels, label)
		if onlyCase != 0 && onlyCase != id {
			continue
		}
		var wire bytes.Buffer
		merr := s.MarshalCBOR(&wire)
		enc := "None"
		var inputs []string
		if merr == nil {
			enc = "(Some " + coqBytes(wire.Bytes()) + ")"
			res.hist("marshal:written")
			// ---- direct monitor (C06): what was written is read back equal ----
			o, back, pan := readRecord(wire.Bytes())
			switch {
			case pan != "":
				fail(id, "record-decoder-panics", "UnmarshalCBOR panicked on a record MarshalCBOR wrote: "+pan, label, nil, nil)
			case o.kind != "bytes":
				fail(id, "written-record-not-readable", "a record that MarshalCBOR wrote is "+o.kind+" when read back: "+o.err, label, o.kind, "bytes")
			case !bytes.Equal(o.bytes, wire.Bytes()):
				fail(id, "record-changes-on-read-back", "a record read back and written again differs from what was first written", label, nil, nil)
			default:
				if d := diffRecord(s, back); d != "" {
					fail(id, "record-field-changes-on-read-back:"+d, "field "+d+" of a record differs after MarshalCBOR / UnmarshalCBOR", label, nil, nil)
				}
			}
			inputs = append(inputs, "("+coqBytes(wire.Bytes())+", "+o.coq()+")")
			// ---- variants of the stored bytes ----
			if len(wire.Bytes()) < 20000 {
				es := entriesOf(wire.Bytes())
				for v := 0; v < 4 && es != nil; v++ {
					ves := append([]kvNode(nil), es...)
					kind := r.intn(6)
					switch kind {
					case 0: // another key order
						for i := len(ves) - 1; i > 0; i-- {
							j := r.intn(i + 1)
							ves[i], ves[j] = ves[j], ves[i]
						}
					case 1: // fields missing
						for k := 0; k <= r.intn(3); k++ {
							p := r.intn(len(ves))
							ves = append(ves[:p], ves[p+1:]...)
						}
					case 2: // an unknown field
						p := r.intn(len(ves) + 1)
						extra := kvNode{[]string{"Unknown", "X", "sent", "AVeryLongFieldNameThatIsNotKnown"}[r.intn(4)], randTopNode(r)}
						ves = append(ves[:p], append([]kvNode{extra}, ves[p:]...)...)
					case 3: // a field twice (the later one wins), the copy taken from another random record
						other := randCState(r, false)
						var ob bytes.Buffer
						if other.MarshalCBOR(&ob) == nil {
							oes := entriesOf(ob.Bytes())
							e := oes[r.intn(len(oes))]
							p := r.intn(len(ves) + 1)
							ves = append(ves[:p], append([]kvNode{e}, ves[p:]...)...)
						}
					case 4: // a value of the wrong shape
						p := r.intn(len(ves))
						ves[p] = kvNode{ves[p].k, randTopNode(r)}
					default: // both: shuffled and one value replaced by null
						p := r.intn(len(ves))
						ves[p] = kvNode{ves[p].k, datamodel.Null}
						for i := len(ves) - 1; i > 0; i-- {
							j := r.intn(i + 1)
							ves[i], ves[j] = ves[j], ves[i]
						}
					}
					vb := encodeEntries(ves)
					vo, _, vpan := readRecord(vb)
					if vpan != "" {
						fail(id, "record-decoder-panics", "UnmarshalCBOR panicked: "+vpan, fmt.Sprintf("%s variant=%d bytes=%x", label, kind, vb), nil, nil)
						continue
					}
					res.hist(fmt.Sprintf("variant:%d:%s", kind, vo.kind))
					inputs = append(inputs, "("+coqBytes(vb)+", "+vo.coq()+")")
				}
			}
		} else {
			res.hist("marshal:refused")
		}
		lines = append(lines, fmt.Sprintf("  mkSCase %d\n   %s\n   %s\n   %s", id, coqCState(s), enc, coqList(inputs)))
		res.distinct(fmt.Sprintf("%x", wire.Bytes()))
	}
	res.Cases = len(lines)
	res.Rule = "random channel records over the whole range of every field (peer ids as arbitrary bytes, 64-bit boundary values, negative block totals, undefined base CID, nil / null / random IPLD selector, 0-3 vouchers and results with random IPLD payloads of every kind, nil or 0-4 stages with logs and nil entries, random time stamps); every twelfth record probes the encoder's limits (text of 8191 / 8192 / 8193 bytes, 8192 / 8193 vouchers); each record: MarshalCBOR bytes or refusal, read back, and four variants of the stored bytes (shuffled keys, missing fields, unknown field, duplicated field, ill-typed value, null value) read by UnmarshalCBOR"
	// shards bounded by size as well as by count: the records probing the encoder's limits are large, and one
	// definition of several megabytes overflows coqc's stack
	const shard, shardBytes = 25, 600000
	shardNo := 0
	for lo := 0; lo < len(lines) || shardNo == 0; {
		hi, size := lo, 0
		for hi < len(lines) && hi-lo < shard && (hi == lo || size+len(lines[hi]) <= shardBytes) {
			size += len(lines[hi])
			hi++
		}
		body := "From Coq Require Import List NArith ZArith String Ascii Bool.\nFrom DT Require Import Cbor StateCodec WireCorr StateCorr.\nImport ListNotations.\nLocal Open Scope N_scope.\n\nDefinition cases : list statecase := [\n" +
			strings.Join(lines[lo:hi], ";\n") + "\n].\n\nDefinition M := Eval vm_compute in mismatches cases.\nPrint M.\n"
		writeFile(filepath.Join(dir, fmt.Sprintf("cases_statecodec_%03d.v", shardNo)), body)
		shardNo++
		if hi == lo {
			break
		}
		lo = hi
	}
	res.write(dir)
}

// diffRecord names the first field in which two records differ ("" if none); nodes are compared by their DAG-CBOR bytes
func diffRecord(a, b *channels.VerifChannelState) string {
	nodeBytes := func(n datamodel.Node) string {
		if n == nil {
			n = datamodel.Null
		}
		var out bytes.Buffer
		_ = dagcbor.Encode(repr(n), &out)
		return out.String()
	}
	switch {
	case a.SelfPeer != b.SelfPeer:
		return "SelfPeer"
	case a.TransferID != b.TransferID:
		return "TransferID"
	case a.Initiator != b.Initiator:
		return "Initiator"
	case a.Responder != b.Responder:
		return "Responder"
	case !a.BaseCid.Equals(b.BaseCid):
		return "BaseCid"
	case nodeBytes(a.Selector.Node) != nodeBytes(b.Selector.Node):
		return "Selector"
	case a.Sender != b.Sender:
		return "Sender"
	case a.Recipient != b.Recipient:
		return "Recipient"
	case a.TotalSize != b.TotalSize:
		return "TotalSize"
	case a.Status != b.Status:
		return "Status"
	case a.Queued != b.Queued:
		return "Queued"
	case a.Sent != b.Sent:
		return "Sent"
	case a.Received != b.Received:
		return "Received"
	case a.Message != b.Message:
		return "Message"
	case a.ReceivedBlocksTotal != b.ReceivedBlocksTotal:
		return "ReceivedBlocksTotal"
	case a.QueuedBlocksTotal != b.QueuedBlocksTotal:
		return "QueuedBlocksTotal"
	case a.SentBlocksTotal != b.SentBlocksTotal:
		return "SentBlocksTotal"
	case a.DataLimit != b.DataLimit:
		return "DataLimit"
	case a.RequiresFinalization != b.RequiresFinalization:
		return "RequiresFinalization"
	case a.ResponderPaused != b.ResponderPaused:
		return "ResponderPaused"
	case a.InitiatorPaused != b.InitiatorPaused:
		return "InitiatorPaused"
	case len(a.Vouchers) != len(b.Vouchers):
		return "Vouchers(length)"
	case len(a.VoucherResults) != len(b.VoucherResults):
		return "VoucherResults(length)"
	}
	for i := range a.Vouchers {
		if a.Vouchers[i].Type != b.Vouchers[i].Type || nodeBytes(a.Vouchers[i].Voucher.Node) != nodeBytes(b.Vouchers[i].Voucher.Node) {
			return "Vouchers"
		}
	}
	for i := range a.VoucherResults {
		if a.VoucherResults[i].Type != b.VoucherResults[i].Type || nodeBytes(a.VoucherResults[i].VoucherResult.Node) != nodeBytes(b.VoucherResults[i].VoucherResult.Node) {
			return "VoucherResults"
		}
	}
	if (a.Stages == nil) != (b.Stages == nil) {
		return "Stages(nil)"
	}
	if a.Stages != nil {
		if len(a.Stages.Stages) != len(b.Stages.Stages) {
			return "Stages(length)"
		}
		for i, x := range a.Stages.Stages {
			y := b.Stages.Stages[i]
			if (x == nil) != (y == nil) {
				return "Stages(entry)"
			}
			if x == nil {
				continue
			}
			if x.Name != y.Name || x.Description != y.Description || x.CreatedTime.Time().UnixNano() != y.CreatedTime.Time().UnixNano() ||
				x.UpdatedTime.Time().UnixNano() != y.UpdatedTime.Time().UnixNano() || len(x.Logs) != len(y.Logs) {
				return "Stages(stage)"
			}
			for j, l := range x.Logs {
				m := y.Logs[j]
				if (l == nil) != (m == nil) {
					return "Stages(log entry)"
				}
				if l != nil && (l.Log != m.Log || l.UpdatedTime.Time().UnixNano() != m.UpdatedTime.Time().UnixNano()) {
					return "Stages(log)"
				}
			}
		}
	}
	return ""
}

var _ = cid.Undef
