package main

import (
	"context"
	"errors"
	"fmt"
	"path/filepath"
	"sort"
	"strings"
	"sync"
	"time"

	"github.com/ipfs/go-graphsync"
	"github.com/ipfs/go-graphsync/donotsendfirstblocks"
	ipld "github.com/ipld/go-ipld-prime"
	"github.com/ipld/go-ipld-prime/datamodel"
	cidlink "github.com/ipld/go-ipld-prime/linking/cid"
	"github.com/libp2p/go-libp2p/core/peer"

	datatransfer "github.com/filecoin-project/go-data-transfer/v2"
	"github.com/filecoin-project/go-data-transfer/v2/message"
	dtgs "github.com/filecoin-project/go-data-transfer/v2/transport/graphsync"
	"github.com/filecoin-project/go-data-transfer/v2/transport/graphsync/extension"
	"github.com/filecoin-project/go-data-transfer/v2/transport/graphsync/testharness"
)

// ---------- H3: the real graphsync Transport over a fake GraphExchange ----------

type hAns struct {
	Ret int // 0 nil, 1 ErrPause, 2 other error
	Msg *msgSpec
}

func (a hAns) coq() string {
	m := "None"
	if a.Msg != nil {
		m = "(Some " + a.Msg.coq() + ")"
	}
	return fmt.Sprintf("(mkAns %s %s)", []string{"HNil", "HPause", "HErr"}[a.Ret], m)
}

type hCall struct {
	Name   string
	K      chidTok
	Size   uint64
	Index  int64
	Unique bool
	Msg    *msgSpec
	Failed bool
}

func (h hCall) coq() string {
	switch h.Name {
	case "HDataReceived", "HDataQueued", "HDataSent":
		return fmt.Sprintf("%s %s %s %s %s", h.Name, h.K.coq(), coqN(h.Size), coqZ(h.Index), coqBool(h.Unique))
	case "HRequestReceived", "HResponseReceived":
		return fmt.Sprintf("%s %s %s", h.Name, h.K.coq(), h.Msg.coq())
	case "HChannelCompleted":
		return fmt.Sprintf("%s %s %s", h.Name, h.K.coq(), coqBool(h.Failed))
	}
	return fmt.Sprintf("%s %s", h.Name, h.K.coq())
}

type gsCmd struct {
	Kind string
	To   int
	Rid  uint64
	Msg  *msgSpec
	Msgs []msgSpec
	Skip *int64
	K    chidTok
	OK   bool
}

func (g gsCmd) coq() string {
	var body string
	switch g.Kind {
	case "GRequest":
		skip := "None"
		if g.Skip != nil {
			skip = "(Some " + coqZ(*g.Skip) + ")"
		}
		body = fmt.Sprintf("GRequest %s %s %s", coqN(uint64(g.To)), g.Msg.coq(), skip)
	case "GCancel", "GPause":
		body = fmt.Sprintf("%s %s", g.Kind, coqN(g.Rid))
	case "GUnpause":
		var ms []string
		for _, m := range g.Msgs {
			ms = append(ms, m.coq())
		}
		body = fmt.Sprintf("GUnpause %s %s", coqN(g.Rid), coqList(ms))
	default:
		body = fmt.Sprintf("%s %s", g.Kind, g.K.coq())
	}
	return fmt.Sprintf("(%s, %s)", body, coqBool(g.OK))
}

type trRig struct {
	wedged  bool // a read of the transport's bookkeeping did not return: a library lock was left held
	res     *suiteResult
	self    peer.ID
	selfTok int
	tids    *tidTable
	tr      *dtgs.Transport
	gs      *gsDouble

	mu           sync.Mutex
	oracle       []hAns
	calls        []hCall
	cmds         []gsCmd
	ridTok       map[graphsync.RequestID]uint64
	ridReal      map[uint64]graphsync.RequestID
	nextOut      uint64
	out          map[uint64]*outReq
	pendingDone  int // executeGsRequest goroutines that will report a handler call
	lastStoreOpt string
}

type outReq struct {
	responses chan graphsync.ResponseProgress
	errs      chan error
	closed    bool
}

func (r *trRig) chidTokOf(c datatransfer.ChannelID) chidTok {
	return chidTok{tokOfPeer(c.Initiator), tokOfPeer(c.Responder), uint64(c.ID)}
}
func (r *trRig) chidReal(k chidTok) datatransfer.ChannelID {
	return datatransfer.ChannelID{Initiator: peerOrEmpty(k.Init), Responder: peerOrEmpty(k.Resp), ID: datatransfer.TransferID(k.Tid)}
}
func (r *trRig) rid(tok uint64) graphsync.RequestID {
	r.mu.Lock()
	defer r.mu.Unlock()
	if id, ok := r.ridReal[tok]; ok {
		return id
	}
	id := graphsync.NewRequestID()
	r.ridReal[tok] = id
	r.ridTok[id] = tok
	return id
}
func (r *trRig) tokOfRid(id graphsync.RequestID) uint64 {
	r.mu.Lock()
	defer r.mu.Unlock()
	if t, ok := r.ridTok[id]; ok {
		return t
	}
	return 9999
}

// spec <-> message (plain tids: the transport suites use small ids)
func specOf(m datatransfer.Message) msgSpec {
	t := &tidTable{toTok: map[uint64]uint64{}, toReal: map[uint64]uint64{}}
	nr := &nodeRig{tids: t}
	return nr.specOfMsg(m)
}
func realOf(s msgSpec) datatransfer.Message {
	t := &tidTable{toTok: map[uint64]uint64{}, toReal: map[uint64]uint64{}}
	nr := &nodeRig{tids: t}
	return nr.realMsg(s)
}

// a message that went through IPLD (as it does inside a graphsync extension)
func viaIPLD(m datatransfer.Message) msgSpec {
	nd := m.ToIPLD()
	back, err := message.FromIPLD(nd)
	if err != nil {
		return msgSpec{Type: 98}
	}
	return specOf(back)
}

// ----- events handler double -----
type evDouble struct{ r *trRig }

func (e *evDouble) answer() hAns {
	r := e.r
	if len(r.oracle) == 0 {
		return hAns{}
	}
	a := r.oracle[0]
	r.oracle = r.oracle[1:]
	return a
}
func retErr(a hAns) error {
	switch a.Ret {
	case 1:
		return datatransfer.ErrPause
	case 2:
		return errors.New("handler error")
	}
	return nil
}
func (e *evDouble) rec(h hCall, consume bool) hAns {
	e.r.mu.Lock()
	defer e.r.mu.Unlock()
	e.r.calls = append(e.r.calls, h)
	if consume {
		return e.answer()
	}
	return hAns{}
}
func (e *evDouble) OnChannelOpened(chid datatransfer.ChannelID) error {
	return retErr(e.rec(hCall{Name: "HChannelOpened", K: e.r.chidTokOf(chid)}, true))
}
func (e *evDouble) OnResponseReceived(chid datatransfer.ChannelID, msg datatransfer.Response) error {
	s := specOf(msg)
	return retErr(e.rec(hCall{Name: "HResponseReceived", K: e.r.chidTokOf(chid), Msg: &s}, true))
}
func (e *evDouble) OnDataReceived(chid datatransfer.ChannelID, link ipld.Link, size uint64, index int64, unique bool) error {
	return retErr(e.rec(hCall{Name: "HDataReceived", K: e.r.chidTokOf(chid), Size: size, Index: index, Unique: unique}, true))
}
func (e *evDouble) OnDataQueued(chid datatransfer.ChannelID, link ipld.Link, size uint64, index int64, unique bool) (datatransfer.Message, error) {
	a := e.rec(hCall{Name: "HDataQueued", K: e.r.chidTokOf(chid), Size: size, Index: index, Unique: unique}, true)
	var m datatransfer.Message
	if a.Msg != nil {
		m = realOf(*a.Msg)
	}
	return m, retErr(a)
}
func (e *evDouble) OnDataSent(chid datatransfer.ChannelID, link ipld.Link, size uint64, index int64, unique bool) error {
	e.rec(hCall{Name: "HDataSent", K: e.r.chidTokOf(chid), Size: size, Index: index, Unique: unique}, false)
	return nil
}
func (e *evDouble) OnTransferInitiated(chid datatransfer.ChannelID) {
	e.rec(hCall{Name: "HTransferInitiated", K: e.r.chidTokOf(chid)}, false)
}
func (e *evDouble) OnRequestReceived(chid datatransfer.ChannelID, msg datatransfer.Request) (datatransfer.Response, error) {
	s := specOf(msg)
	a := e.rec(hCall{Name: "HRequestReceived", K: e.r.chidTokOf(chid), Msg: &s}, true)
	var m datatransfer.Response
	if a.Msg != nil {
		m = realOf(*a.Msg).(datatransfer.Response)
	}
	return m, retErr(a)
}
func (e *evDouble) done() {
	e.r.mu.Lock()
	if e.r.pendingDone > 0 {
		e.r.pendingDone--
	}
	e.r.mu.Unlock()
}
func (e *evDouble) OnChannelCompleted(chid datatransfer.ChannelID, err error) error {
	e.rec(hCall{Name: "HChannelCompleted", K: e.r.chidTokOf(chid), Failed: err != nil}, false)
	e.done()
	return nil
}
func (e *evDouble) OnRequestCancelled(chid datatransfer.ChannelID, err error) error {
	e.rec(hCall{Name: "HRequestCancelled", K: e.r.chidTokOf(chid)}, false)
	e.done()
	return nil
}
func (e *evDouble) OnRequestDisconnected(chid datatransfer.ChannelID, err error) error { return nil }
func (e *evDouble) OnSendDataError(chid datatransfer.ChannelID, err error) error {
	e.rec(hCall{Name: "HSendDataError", K: e.r.chidTokOf(chid)}, false)
	return nil
}
func (e *evDouble) OnReceiveDataError(chid datatransfer.ChannelID, err error) error {
	e.rec(hCall{Name: "HReceiveDataError", K: e.r.chidTokOf(chid)}, false)
	return nil
}
func (e *evDouble) OnContextAugment(chid datatransfer.ChannelID) func(context.Context) context.Context {
	return func(ctx context.Context) context.Context { return ctx }
}

// ----- graphsync double -----
type gsDouble struct {
	*testharness.FakeGraphSync
	r            *trRig
	stores       map[string]bool // registered persistence options (as real graphsync keeps them)
	beforeCancel func(graphsync.RequestID)
	slowFinish   time.Duration // a cancelled outgoing request ends this long after Cancel returned
}

func extMap(exts []graphsync.ExtensionData) map[graphsync.ExtensionName]datamodel.Node {
	m := map[graphsync.ExtensionName]datamodel.Node{}
	for _, e := range exts {
		m[e.Name] = e.Data
	}
	return m
}

func dtMsgOf(exts []graphsync.ExtensionData) *msgSpec {
	for _, e := range exts {
		if e.Name == extension.ExtensionDataTransfer1_1 || e.Name == extension.ExtensionIncomingRequest1_1 || e.Name == extension.ExtensionOutgoingBlock1_1 {
			m, err := message.FromIPLD(e.Data)
			if err == nil {
				s := specOf(m)
				return &s
			}
		}
	}
	return nil
}

func (g *gsDouble) record(c gsCmd) {
	g.r.mu.Lock()
	c.OK = true
	g.r.cmds = append(g.r.cmds, c)
	g.r.mu.Unlock()
}

func (g *gsDouble) Request(ctx context.Context, p peer.ID, root ipld.Link, selector datamodel.Node, exts ...graphsync.ExtensionData) (<-chan graphsync.ResponseProgress, <-chan error) {
	r := g.r
	id := graphsync.NewRequestID()
	r.mu.Lock()
	tok := r.nextOut
	r.nextOut++
	r.ridTok[id] = tok
	r.ridReal[tok] = id
	o := &outReq{responses: make(chan graphsync.ResponseProgress), errs: make(chan error, 4)}
	r.out[tok] = o
	r.mu.Unlock()
	cmd := gsCmd{Kind: "GRequest", To: tokOfPeer(p), Msg: dtMsgOf(exts)}
	for _, e := range exts {
		if e.Name == graphsync.ExtensionsDoNotSendFirstBlocks {
			n, err := donotsendfirstblocks.DecodeDoNotSendFirstBlocks(e.Data)
			if err == nil {
				cmd.Skip = &n
			}
		}
	}
	if cmd.Msg == nil {
		cmd.Msg = &msgSpec{Type: 97}
	}
	g.record(cmd)
	req := testharness.NewFakeRequest(id, extMap(exts), graphsync.RequestTypeNew)
	acts := &testharness.FakeOutgoingRequestHookActions{}
	if g.OutgoingRequestHook != nil {
		g.OutgoingRequestHook(p, req, acts)
	}
	if acts.PersistenceOption != "" {
		r.mu.Lock()
		r.lastStoreOpt = acts.PersistenceOption
		r.mu.Unlock()
	}
	return o.responses, o.errs
}

func (g *gsDouble) finish(tok uint64, err error) { g.finishAfter(tok, nil, err) }

// finishAfter ends a request whose error channel first carried the non-terminal error pre
func (g *gsDouble) finishAfter(tok uint64, pre error, err error) {
	r := g.r
	r.mu.Lock()
	o, ok := r.out[tok]
	if !ok || o.closed {
		r.mu.Unlock()
		return
	}
	o.closed = true
	if _, resp := err.(graphsync.RequestCancelledErr); !resp {
		r.pendingDone++
	}
	r.mu.Unlock()
	if pre != nil {
		o.errs <- pre
	}
	if err != nil {
		o.errs <- err
	}
	close(o.responses)
	close(o.errs)
}

func (g *gsDouble) Cancel(ctx context.Context, id graphsync.RequestID) error {
	tok := g.r.tokOfRid(id)
	// graphsync's response manager is one goroutine: it answers Cancel only after the callbacks it is
	// running have returned.  beforeCancel lets a scenario run such a callback at exactly that point.
	g.r.mu.Lock()
	hook := g.beforeCancel
	g.beforeCancel = nil
	g.r.mu.Unlock()
	if hook != nil {
		hook(id)
	}
	g.record(gsCmd{Kind: "GCancel", Rid: tok})
	g.r.mu.Lock()
	slow := g.slowFinish
	g.r.mu.Unlock()
	if slow > 0 {
		// like the real graphsync: Cancel returns once the cancellation is under way, the request winds down later
		go func() { time.Sleep(slow); g.finish(tok, graphsync.RequestClientCancelledErr{}) }()
		return nil
	}
	g.finish(tok, graphsync.RequestClientCancelledErr{})
	return nil
}
func (g *gsDouble) runBeforeAnswer(id graphsync.RequestID) {
	g.r.mu.Lock()
	hook := g.beforeCancel
	g.beforeCancel = nil
	g.r.mu.Unlock()
	if hook != nil {
		hook(id)
	}
}
func (g *gsDouble) Pause(ctx context.Context, id graphsync.RequestID) error {
	g.runBeforeAnswer(id)
	g.record(gsCmd{Kind: "GPause", Rid: g.r.tokOfRid(id)})
	return nil
}
func (g *gsDouble) Unpause(ctx context.Context, id graphsync.RequestID, exts ...graphsync.ExtensionData) error {
	g.runBeforeAnswer(id)
	c := gsCmd{Kind: "GUnpause", Rid: g.r.tokOfRid(id)}
	for _, e := range canonExts(exts) {
		c.Msgs = append(c.Msgs, e.Msg)
	}
	g.record(c)
	return nil
}
func (g *gsDouble) storeChid(name string) chidTok {
	nr := &nodeRig{tids: &tidTable{toTok: map[uint64]uint64{}, toReal: map[uint64]uint64{}}}
	return nr.tagChid(strings.TrimPrefix(name, "data-transfer-"))
}

// graphsync keeps a registry of persistence options: a name can be registered once
func (g *gsDouble) RegisterPersistenceOption(name string, lsys ipld.LinkSystem) error {
	g.r.mu.Lock()
	if g.stores == nil {
		g.stores = map[string]bool{}
	}
	dup := g.stores[name]
	if !dup {
		g.stores[name] = true
	}
	g.r.cmds = append(g.r.cmds, gsCmd{Kind: "GRegisterStore", K: g.storeChid(name), OK: !dup})
	g.r.mu.Unlock()
	if dup {
		return errors.New("persistence option already registered")
	}
	return nil
}
func (g *gsDouble) UnregisterPersistenceOption(name string) error {
	g.r.mu.Lock()
	delete(g.stores, name)
	g.r.mu.Unlock()
	g.record(gsCmd{Kind: "GUnregisterStore", K: g.storeChid(name)})
	return nil
}

type extRec struct {
	Set int // 0 default, 1 incoming-request, 2 outgoing-block
	Msg msgSpec
}

// one entry per attached message: ToExtensionData emits the same message under several names
func canonExts(exts []graphsync.ExtensionData) []extRec {
	var out []extRec
	for i := 0; i < len(exts); i++ {
		e := exts[i]
		m, err := message.FromIPLD(e.Data)
		if err != nil {
			continue
		}
		set := 0
		switch e.Name {
		case extension.ExtensionIncomingRequest1_1:
			set = 1
		case extension.ExtensionOutgoingBlock1_1:
			set = 2
		}
		if set != 0 && i+1 < len(exts) && exts[i+1].Name == extension.ExtensionDataTransfer1_1 {
			i++ // the compatibility copy under the default name
		}
		out = append(out, extRec{set, specOf(m)})
	}
	return out
}

func newTrRig(res *suiteResult, selfTok int) *trRig {
	r := &trRig{res: res, self: peerOf(selfTok), selfTok: selfTok, ridTok: map[graphsync.RequestID]uint64{}, ridReal: map[uint64]graphsync.RequestID{}, nextOut: 100, out: map[uint64]*outReq{}}
	r.gs = &gsDouble{FakeGraphSync: testharness.NewFakeGraphSync(), r: r}
	r.tr = dtgs.NewTransport(r.self, r.gs)
	if err := r.tr.SetEventHandler(&evDouble{r}); err != nil {
		panic(err)
	}
	return r
}

// ---------- steps ----------

type tStep struct {
	Kind     string
	To, P    int
	K        chidTok
	Received *int64
	Msg, M2  *msgSpec
	Rid      uint64
	Size     uint64
	Index    int64
	OnWire   bool
	Status   int // 0 full 1 cancelled 2 other
	Done     int // 0 ok 1 client cancelled 2 responder cancelled 3 error
	PreErr   bool // the request reported a non-terminal error (a block the remote misses) before it ended
	Oracle   []hAns
}

func optMsg(m *msgSpec) string {
	if m == nil {
		return "None"
	}
	return "(Some " + m.coq() + ")"
}

func (s tStep) inputCoq() string {
	switch s.Kind {
	case "open":
		rc := "None"
		if s.Received != nil {
			rc = "(Some " + coqZ(*s.Received) + ")"
		}
		return fmt.Sprintf("XOpenChannel %s %s %s %s", coqN(uint64(s.To)), s.K.coq(), rc, s.Msg.coq())
	case "pause":
		return "XPause " + s.K.coq()
	case "resume":
		return fmt.Sprintf("XResume %s %s", s.K.coq(), optMsg(s.Msg))
	case "close":
		return "XClose " + s.K.coq()
	case "cleanup":
		return "XCleanup " + s.K.coq()
	case "usestore":
		return "XUseStore " + s.K.coq()
	case "gincomingrequest":
		return fmt.Sprintf("GIncomingRequest %s %s %s", coqN(uint64(s.P)), coqN(s.Rid), optMsg(s.Msg))
	case "gprocessing":
		return "GRequestProcessing " + coqN(s.Rid)
	case "gincomingblock", "goutgoingblock", "gblocksent":
		n := map[string]string{"gincomingblock": "GIncomingBlock", "goutgoingblock": "GOutgoingBlock", "gblocksent": "GBlockSent"}[s.Kind]
		return fmt.Sprintf("%s %s %s %s %s", n, coqN(s.Rid), coqN(s.Size), coqZ(s.Index), coqBool(s.OnWire))
	case "gcompleted":
		return fmt.Sprintf("GCompletedResponse %s %s", coqN(s.Rid), []string{"SFull", "SCancelled", "SOtherStatus"}[s.Status])
	case "gupdated":
		return fmt.Sprintf("GRequestUpdated %s %s %s", coqN(uint64(s.P)), coqN(s.Rid), optMsg(s.Msg))
	case "gincomingresponse":
		return fmt.Sprintf("GIncomingResponse %s %s %s %s", coqN(uint64(s.P)), coqN(s.Rid), optMsg(s.Msg), optMsg(s.M2))
	case "grequestorcancelled":
		return "GRequestorCancelled " + coqN(s.Rid)
	case "gsenderror":
		return "GNetSendError " + coqN(s.Rid)
	case "grecverror":
		return "GNetRecvError " + coqN(uint64(s.P))
	case "gdone":
		d := s.Done
		if s.PreErr && d == 0 {
			d = 3 // the last error decides: a request that ends after a non-terminal error and nothing else has failed
		}
		return fmt.Sprintf("GRequestDone %s %s", coqN(s.Rid), []string{"DOk", "DClientCancelled", "DResponderCancelled", "DError"}[d])
	}
	return "?"
}

func (s tStep) String() string {
	x := strings.ReplaceAll(strings.ReplaceAll(s.inputCoq(), "%N", ""), "%Z", "")
	if len(s.Oracle) > 0 {
		var a []string
		for _, o := range s.Oracle {
			a = append(a, fmt.Sprint(o.Ret, o.Msg != nil))
		}
		x += " answers" + fmt.Sprint(a)
	}
	return x
}

type tObs struct {
	Calls                            []hCall
	Cmds                             []gsCmd
	Sent                             []extRec
	Upd                              []msgSpec
	Term, PauseResp, PauseReq, Valid bool
	Store                            *chidTok
	Ret                              *bool
	Hang                             bool
	Panic                            string
}

func (o tObs) coq() string {
	var calls, cmds, sent, upd []string
	for _, c := range o.Calls {
		calls = append(calls, c.coq())
	}
	for _, c := range o.Cmds {
		cmds = append(cmds, c.coq())
	}
	for _, e := range o.Sent {
		sent = append(sent, fmt.Sprintf("(%s, %s)", coqN(uint64(e.Set)), e.Msg.coq()))
	}
	for _, m := range o.Upd {
		upd = append(upd, m.coq())
	}
	store := "None"
	if o.Store != nil {
		store = "(Some " + o.Store.coq() + ")"
	}
	ret := "None"
	if o.Ret != nil {
		ret = "(Some " + coqBool(*o.Ret) + ")"
	}
	return fmt.Sprintf("(mkTObs %s %s (mkActs %s %s %s %s %s %s %s) %s)", coqList(calls), coqList(cmds), coqList(sent), coqList(upd),
		coqBool(o.Term), coqBool(o.PauseResp), coqBool(o.PauseReq), coqBool(o.Valid), store, ret)
}

func extsFor(m *msgSpec, names ...graphsync.ExtensionName) map[graphsync.ExtensionName]datamodel.Node {
	out := map[graphsync.ExtensionName]datamodel.Node{}
	if m != nil {
		nd := realOf(*m).ToIPLD()
		for _, n := range names {
			out[n] = nd
		}
	}
	return out
}

func (r *trRig) exec(s tStep) tObs {
	r.mu.Lock()
	r.oracle = append([]hAns(nil), s.Oracle...)
	r.calls, r.cmds = nil, nil
	r.lastStoreOpt = ""
	r.mu.Unlock()
	var obs tObs
	done := make(chan struct{})
	ctx := context.Background()
	go func() {
		defer close(done)
		defer func() {
			if p := recover(); p != nil {
				obs.Panic = fmt.Sprint(p)
			}
		}()
		setRet := func(err error) {
			b := err == nil
			obs.Ret = &b
		}
		k := r.chidReal(s.K)
		blk := testharness.NewFakeBlockData(s.Size, s.Index, s.OnWire)
		switch s.Kind {
		case "open":
			var st datatransfer.ChannelState
			if s.Received != nil {
				st = fakeState{received: *s.Received}
			}
			setRet(r.tr.OpenChannel(ctx, peerOf(s.To), k, cidlink.Link{Cid: cidOf(1)}, nodeOf(2), st, realOf(*s.Msg)))
		case "pause":
			setRet(r.tr.PauseChannel(ctx, k))
		case "resume":
			var m datatransfer.Message
			if s.Msg != nil {
				m = realOf(*s.Msg)
			}
			setRet(r.tr.ResumeChannel(ctx, m, k))
		case "close":
			setRet(r.tr.CloseChannel(ctx, k))
		case "cleanup":
			r.tr.CleanupChannel(k)
		case "usestore":
			setRet(r.tr.UseStore(k, cidlink.DefaultLinkSystem()))
		case "gincomingrequest":
			a := &testharness.FakeIncomingRequestHookActions{}
			req := testharness.NewFakeRequest(r.rid(s.Rid), extsFor(s.Msg, extension.ExtensionDataTransfer1_1), graphsync.RequestTypeNew)
			r.gs.IncomingRequestHook(peerOf(s.P), req, a)
			obs.Sent, obs.Term, obs.PauseResp, obs.Valid = canonExts(a.SentExtensions), a.TerminationError != nil, a.Paused, a.Validated
			if a.PersistenceOption != "" {
				c := r.gs.storeChid(a.PersistenceOption)
				obs.Store = &c
			}
		case "gprocessing":
			r.gs.IncomingRequestProcessingListener(peerOf(2), testharness.NewFakeRequest(r.rid(s.Rid), nil, graphsync.RequestTypeNew), 0)
		case "gincomingblock":
			a := &testharness.FakeIncomingBlockHookActions{}
			r.gs.IncomingBlockHook(peerOf(2), testharness.NewFakeResponse(r.rid(s.Rid), nil, graphsync.PartialResponse), blk, a)
			obs.Term, obs.PauseReq = a.TerminationError != nil, a.Paused
		case "goutgoingblock":
			a := &testharness.FakeOutgoingBlockHookActions{}
			r.gs.OutgoingBlockHook(peerOf(2), testharness.NewFakeRequest(r.rid(s.Rid), nil, graphsync.RequestTypeNew), blk, a)
			obs.Sent, obs.Term, obs.PauseResp = canonExts(a.SentExtensions), a.TerminationError != nil, a.Paused
		case "gblocksent":
			r.gs.BlockSentListener(peerOf(2), testharness.NewFakeRequest(r.rid(s.Rid), nil, graphsync.RequestTypeNew), blk)
		case "gcompleted":
			st := []graphsync.ResponseStatusCode{graphsync.RequestCompletedFull, graphsync.RequestCancelled, graphsync.RequestFailedUnknown}[s.Status]
			r.gs.CompletedResponseListener(peerOf(2), testharness.NewFakeRequest(r.rid(s.Rid), nil, graphsync.RequestTypeNew), st)
		case "gupdated":
			a := &testharness.FakeRequestUpdatedActions{}
			req := testharness.NewFakeRequest(r.rid(s.Rid), nil, graphsync.RequestTypeNew)
			upd := testharness.NewFakeRequest(r.rid(s.Rid), extsFor(s.Msg, extension.ExtensionDataTransfer1_1), graphsync.RequestTypeUpdate)
			r.gs.RequestUpdatedHook(peerOf(s.P), req, upd, a)
			obs.Sent, obs.Term = canonExts(a.SentExtensions), a.TerminationError != nil
		case "gincomingresponse":
			a := &testharness.FakeIncomingResponseHookActions{}
			exts := extsFor(s.Msg, extension.ExtensionIncomingRequest1_1)
			for n, v := range extsFor(s.M2, extension.ExtensionOutgoingBlock1_1) {
				exts[n] = v
			}
			r.gs.IncomingResponseHook(peerOf(s.P), testharness.NewFakeResponse(r.rid(s.Rid), exts, graphsync.PartialResponse), a)
			for _, e := range canonExts(a.SentExtensions) {
				obs.Upd = append(obs.Upd, e.Msg)
			}
			obs.Term = a.TerminationError != nil
		case "grequestorcancelled":
			r.gs.RequestorCancelledListener(peerOf(2), testharness.NewFakeRequest(r.rid(s.Rid), nil, graphsync.RequestTypeNew))
		case "gsenderror":
			r.gs.NetworkErrorListener(peerOf(2), testharness.NewFakeRequest(r.rid(s.Rid), nil, graphsync.RequestTypeNew), errors.New("net"))
		case "grecverror":
			r.gs.ReceiverNetworkErrorListener(peerOf(s.P), errors.New("net"))
		case "gdone":
			var err error
			switch s.Done {
			case 1:
				err = graphsync.RequestClientCancelledErr{}
			case 2:
				err = graphsync.RequestCancelledErr{}
			case 3:
				err = errors.New("failed")
			}
			var pre error
			if s.PreErr {
				pre = graphsync.RemoteMissingBlockErr{Link: cidlink.Link{Cid: cidOf(1)}}
			}
			r.gs.finishAfter(s.Rid, pre, err)
		}
	}()
	select {
	case <-done:
	case <-time.After(4 * time.Second):
		obs.Hang = true
		return obs
	}
	// wait for the executeGsRequest goroutines of requests that just ended
	deadline := time.Now().Add(3 * time.Second)
	for time.Now().Before(deadline) {
		r.mu.Lock()
		p := r.pendingDone
		r.mu.Unlock()
		if p == 0 {
			break
		}
		time.Sleep(100 * time.Microsecond)
	}
	time.Sleep(300 * time.Microsecond)
	r.mu.Lock()
	obs.Calls, obs.Cmds = r.calls, r.cmds
	if s.Kind == "open" && r.lastStoreOpt != "" {
		c := r.gs.storeChid(r.lastStoreOpt)
		obs.Store = &c
	}
	r.mu.Unlock()
	if s.Kind == "grecverror" {
		sort.SliceStable(obs.Calls, func(i, j int) bool {
			a, b := obs.Calls[i].K, obs.Calls[j].K
			if a.Init != b.Init {
				return a.Init < b.Init
			}
			if a.Resp != b.Resp {
				return a.Resp < b.Resp
			}
			return a.Tid < b.Tid
		})
	}
	return obs
}

// fakeState: the only accessor the transport uses from the stored channel state
type fakeState struct {
	datatransfer.ChannelState
	received int64
}

func (f fakeState) ReceivedCidsTotal() int64 { return f.received }

type tCaseOut struct {
	id    int
	steps []tStep
	obs   []tObs
	chans string
	reqs  string
}

func (c tCaseOut) coq() string {
	var st []string
	for i := range c.steps {
		var orc []string
		for _, a := range c.steps[i].Oracle {
			orc = append(orc, a.coq())
		}
		st = append(st, fmt.Sprintf("(%s, %s,\n   %s)", c.steps[i].inputCoq(), coqList(orc), c.obs[i].coq()))
	}
	return fmt.Sprintf("mkTCase %s 1%%N\n %s\n %s %s", coqN(uint64(c.id)), coqList(st), c.chans, c.reqs)
}

func writeTCases(dir, name string, cases []tCaseOut) {
	const shard = 150
	for i := 0; i*shard < len(cases) || i == 0; i++ {
		lo, hi := i*shard, (i+1)*shard
		if hi > len(cases) {
			hi = len(cases)
		}
		var b strings.Builder
		b.WriteString("From Coq Require Import List NArith ZArith String.\nFrom DT Require Import GenStatus GenEvent GenMsgType FsmTypes GenFsm Fsm View Msg Transport NodeCorr TransportCorr.\nImport ListNotations.\nLocal Open Scope string_scope.\n\n")
		b.WriteString("Definition cases : list tcase := [\n")
		for j, c := range cases[lo:hi] {
			b.WriteString(c.coq())
			if j != hi-lo-1 {
				b.WriteString(";\n")
			}
		}
		b.WriteString("\n].\n\nDefinition M := Eval vm_compute in mismatches cases.\nPrint M.\nDefinition MS := Eval vm_compute in mismatch_steps cases.\nPrint MS.\n")
		writeFile(filepath.Join(dir, fmt.Sprintf("cases_%s_%03d.v", name, i)), b.String())
	}
}

// snapshot reads the transport's bookkeeping through the hook, which takes the transport's and the channels' locks
// for reading: if a lock was left held by an earlier call the read never returns (ok = false after 4s)
func (r *trRig) snapshot() (chans map[datatransfer.ChannelID]dtgs.VerifChannel, reqs map[graphsync.RequestID]datatransfer.ChannelID, ok bool) {
	if r.wedged {
		return nil, nil, false
	}
	type res struct {
		c map[datatransfer.ChannelID]dtgs.VerifChannel
		q map[graphsync.RequestID]datatransfer.ChannelID
	}
	ch := make(chan res, 1)
	go func() { c, q := r.tr.VerifSnapshot(); ch <- res{c, q} }()
	select {
	case x := <-ch:
		return x.c, x.q, true
	case <-time.After(4 * time.Second):
		r.wedged = true
		return nil, nil, false
	}
}

func (r *trRig) snapshotCoq() (string, string) {
	chans, reqs, _ := r.snapshot()
	type ce struct {
		k chidTok
		s string
	}
	var cs []ce
	for k, v := range chans {
		kt := r.chidTokOf(k)
		req := "None"
		if v.RequestID != nil {
			req = "(Some " + coqN(r.tokOfRid(*v.RequestID)) + ")"
		}
		cs = append(cs, ce{kt, fmt.Sprintf("mkTCO %s %s %s %s %s %s %s", kt.coq(), coqBool(v.IsOpen), req, coqBool(v.RequesterCancelled), coqBool(v.XferStarted), coqN(uint64(v.PendingExtensions)), coqBool(v.StoreRegistered))})
	}
	sort.Slice(cs, func(i, j int) bool {
		a, b := cs[i].k, cs[j].k
		if a.Init != b.Init {
			return a.Init < b.Init
		}
		if a.Resp != b.Resp {
			return a.Resp < b.Resp
		}
		return a.Tid < b.Tid
	})
	var cstr []string
	for _, c := range cs {
		cstr = append(cstr, c.s)
	}
	type re struct {
		t uint64
		k chidTok
	}
	var rs []re
	for id, k := range reqs {
		rs = append(rs, re{r.tokOfRid(id), r.chidTokOf(k)})
	}
	sort.Slice(rs, func(i, j int) bool { return rs[i].t < rs[j].t })
	var rstr []string
	for _, x := range rs {
		rstr = append(rstr, fmt.Sprintf("(%s, %s)", coqN(x.t), x.k.coq()))
	}
	return coqList(cstr), coqList(rstr)
}

// deliverIncomingRequest runs the transport's incoming-request hook directly (used from inside the graphsync
// double to model a request that graphsync's response goroutine is processing at that moment)
func (r *trRig) deliverIncomingRequest(p int, ridTok uint64, m *msgSpec) {
	if h := r.gs.IncomingRequestHook; h != nil {
		a := &testharness.FakeIncomingRequestHookActions{}
		h(peerOf(p), testharness.NewFakeRequest(r.rid(ridTok), extsFor(m, extension.ExtensionDataTransfer1_1), graphsync.RequestTypeNew), a)
	}
}
