package main

import (
	"fmt"

	datatransfer "github.com/filecoin-project/go-data-transfer/v2"
)

// Direct property monitors of the node suites: each evaluates a property statement on what the
// real manager did in one step (no model involved). They apply to every step of every node suite.

func cleanupStatus(s datatransfer.Status) bool {
	return s == datatransfer.Cancelling || s == datatransfer.Failing || s == datatransfer.Completing
}

func inFinalization(s datatransfer.Status) bool {
	return s == datatransfer.Finalizing || s == datatransfer.Completed || s == datatransfer.Completing
}

func eqStrs(a, b []string) bool {
	if len(a) != len(b) {
		return false
	}
	for i := range a {
		if a[i] != b[i] {
			return false
		}
	}
	return true
}

func isPrefix(a, b []string) bool { return len(a) <= len(b) && eqStrs(a, b[:len(a)]) }

func (r *nodeRig) propertyMonitors(id int, label string, i int, s nStep, o nObs, before, after map[chidTok]chanSnap) {
	where := fmt.Sprintf("%s @step %d %s", label, i+1, s.String())
	fail := func(prop, sig, what string, extra ...interface{}) {
		f := monitorFailure{Property: prop, CaseID: id, Signature: sig, What: what, Input: where}
		if len(extra) > 0 {
			f.Observed = extra[0]
		}
		if len(extra) > 1 {
			f.Expected = extra[1]
		}
		r.res.fail(f)
	}
	self := r.selfTok
	touchedTr := func(k chidTok) bool {
		for _, t := range o.Trs {
			if t.K == k {
				return true
			}
		}
		return false
	}
	announced := func(k chidTok) bool {
		for _, e := range o.Events {
			if e.K == k {
				return true
			}
		}
		return false
	}

	// ---- C04: the validator consulted is the one registered for the request's voucher type
	// (a restart is decided by the validator of the voucher the channel was opened with)
	for _, vc := range o.Vals {
		want := ""
		if vc.Kind == 2 {
			if b, ok := before[vc.K]; ok {
				want = b.OpenType
			}
		} else if s.Kind == "mrequest" || s.Kind == "trequest" {
			want = s.Msg.VType
		}
		if want != "" && vc.Typ != "" && vc.Typ != want {
			fail("C04", "validator-of-another-type-consulted", "the validator that decided the request is not the one registered for the request's voucher type", vc.Typ, want)
		}
	}

	// ---- C03 (and C01): a responder that is still finalizing reports itself paused: whatever Complete it sends
	// (over the network or attached to a transport command) while its channel stays in Finalizing carries the pause flag
	for k, a := range after {
		if a.Status != datatransfer.Finalizing || a.SelfInit {
			continue
		}
		unpaused := func(m msgSpec) bool {
			return !m.IsReq && m.Type == mtComplete && m.Tid == k.Tid && !m.Pause
		}
		for _, sm := range o.Sent {
			if sm.To == a.Other && unpaused(sm.Msg) {
				fail("C03", "unpaused-complete-while-finalizing", "a responder whose channel stays in Finalizing sent a Complete that is not marked paused: the initiator will take it for the final one")
				fail("C01", "unpaused-complete-while-finalizing", "a responder whose channel stays in Finalizing sent a Complete that is not marked paused: the initiator can report Completed while the responder has not finished")
			}
		}
		for _, t := range o.Trs {
			if t.K == k && t.Msg != nil && unpaused(*t.Msg) {
				fail("C03", "unpaused-complete-while-finalizing", "a responder whose channel stays in Finalizing attached an un-paused Complete to a transport command")
				fail("C01", "unpaused-complete-while-finalizing", "a responder whose channel stays in Finalizing attached an un-paused Complete to a transport command")
			}
		}
	}

	// ---- C19: the voucher result that comes with a rejection is recorded (once, at the end of the log)
	if s.Kind == "updatevalidation" && !s.Vr.Accepted && s.Vr.HasRes && o.Ret != 98 && o.Ret != 99 {
		if b, ok := before[s.K]; ok && !b.SelfInit && !isTerminal(b.Status) && b.Status != datatransfer.Cancelling && b.Status != datatransfer.Failing && b.Status != datatransfer.Completing {
			if a, ok := after[s.K]; ok {
				want := coqVoucher(datatransfer.TypeIdentifier(s.Vr.ResType), s.Vr.ResNode)
				if len(a.Results) != len(b.Results)+1 || a.Results[len(a.Results)-1] != want {
					fail("C19", "rejection-result-not-recorded", "the voucher result returned with a rejection was not recorded exactly once at the end of the result log", a.Results, append(append([]string(nil), b.Results...), want))
				}
			}
		}
	}

	// ---- C11: what a responder tells the initiator about its pause state after a validation update is its own
	// pause state (a responder that stays paused does not announce itself un-paused, and vice versa)
	if s.Kind == "updatevalidation" && s.Vr.Accepted && !s.Vr.Err {
		if a, ok := after[s.K]; ok && !a.SelfInit && !isTerminal(a.Status) && a.Status != datatransfer.Cancelling && a.Status != datatransfer.Failing && a.Status != datatransfer.Completing {
			check := func(m msgSpec) {
				if !m.IsReq && m.Tid == s.K.Tid && m.Pause != a.RPaused {
					fail("C11", "announced-pause-state-differs-from-own", "after a validation update the responder's message to the initiator carries a pause flag that is not the responder's own pause state", m.Pause, a.RPaused)
				}
			}
			for _, sm := range o.Sent {
				if sm.To == a.Other {
					check(sm.Msg)
				}
			}
			for _, t := range o.Trs {
				if t.K == s.K && t.Msg != nil {
					check(*t.Msg)
				}
			}
		}
	}

	// ---- C08: the outcome of a validation update is announced to the channel's counterparty, nobody else
	if s.Kind == "updatevalidation" {
		if b, ok := before[s.K]; ok {
			for _, sm := range o.Sent {
				if !sm.Msg.IsReq && sm.Msg.Tid == s.K.Tid && sm.To != b.Other {
					fail("C08", "validation-outcome-sent-to-wrong-peer", "the response announcing a validation update went to a peer that is not the channel's counterparty", sm.To, b.Other)
				}
			}
		}
	}

	// ---- C03 (and C01): a transport completion that carries an error is not the "own transport finished" signal:
	// on a channel this node initiated it records no FinishTransfer and never leads to Completing / Completed
	if s.Kind == "tcompleted" && s.Failed {
		if b, ok := before[s.K]; ok && b.SelfInit && !isTerminal(b.Status) && !cleanupStatus(b.Status) {
			for _, e := range o.Events {
				if e.K == s.K && e.Code == datatransfer.FinishTransfer {
					fail("C03", "failed-transport-recorded-as-finished", "the initiator recorded its transport as finished although the transport reported an error on completion")
					fail("C01", "failed-transport-recorded-as-finished", "the initiator recorded its transport as finished although the transport reported an error on completion")
				}
			}
			if a, ok := after[s.K]; ok && (a.Status == datatransfer.Completing || a.Status == datatransfer.Completed) {
				fail("C03", "completed-on-failed-transport", "the initiator's channel completed on a transport completion that carried an error", statusName(a.Status))
				fail("C01", "completed-on-failed-transport", "the initiator's channel completed on a transport completion that carried an error", statusName(a.Status))
			}
		}
	}

	// ---- C09: a user close cancels the channel's transport request before anything releases the channel's
	// transport resources (a close that finds the channel already cleaned up cancels nothing)
	if s.Kind == "close" || s.Kind == "closeerr" {
		closeAt, cleanupAt := -1, -1
		for i, t := range o.Trs {
			if t.K != s.K {
				continue
			}
			if t.Kind == "close" && closeAt < 0 {
				closeAt = i
			}
			if t.Kind == "cleanup" && cleanupAt < 0 {
				cleanupAt = i
			}
		}
		if closeAt >= 0 && cleanupAt >= 0 && cleanupAt < closeAt {
			fail("C09", "transport-released-before-close", "closing a channel released its transport resources before the transport request was cancelled: the request keeps running")
		}
	}

	// ---- C09: a terminal status is never reached without the ending's cleanup: while the transport is still releasing the
	// channel (the double lingers in CleanupChannel during close steps) no terminal status may be announced for it
	r.mu.Lock()
	early := r.earlyTerminal
	r.earlyTerminal = nil
	r.mu.Unlock()
	if len(early) > 0 {
		fail("C09", "terminal-before-transport-cleanup", "a channel was announced Cancelled / Failed / Completed while the transport was still releasing its resources: the terminal status was reached without waiting for the cleanup")
	}

	// ---- C02: a channel that was terminal before the step is unchanged, nothing is announced for it
	for k, b := range before {
		if !isTerminal(b.Status) {
			continue
		}
		if a, ok := after[k]; !ok || a.View != b.View {
			fail("C02", "terminal-changed-by:"+s.Kind, "a terminal channel changed", after[k].View, b.View)
		}
		if announced(k) {
			fail("C02", "terminal-announced-by:"+s.Kind, "an event was announced for a terminal channel")
		}
		if s.Kind == "restart" && s.K == k {
			if o.Ret != 0 || len(o.Sent) != 0 || len(o.Trs) != 0 {
				fail("C02", "restart-of-terminal-not-a-noop", "restarting a terminal channel is not a successful no-op", fmt.Sprint(o.Ret, len(o.Sent), len(o.Trs)))
			}
		}
		if s.Kind == "close" && s.K == k && o.Ret != 0 {
			fail("C02", "close-of-terminal-errors", "closing a terminal channel returned an error")
		}
		if (s.Kind == "mrequest" || s.Kind == "trequest") && s.Msg.Type == mtRestart {
			kk := s.K
			if s.Kind == "mrequest" {
				kk = chidTok{s.From, self, s.Msg.Tid}
			}
			if kk == k {
				for _, m := range append(sentMsgs(o), returnedMsg(o)...) {
					if !m.IsReq && m.Type == mtRestart && m.Accepted {
						fail("C02", "restart-request-for-terminal-accepted", "a restart request for a terminal channel was accepted")
					}
				}
				for _, t := range o.Trs {
					if t.Kind == "open" && t.K == k {
						fail("C02", "restart-request-for-terminal-opened-transport", "a restart request for a terminal channel opened a transport channel")
					}
				}
			}
		}
		if s.Kind == "mrestartexisting" && s.Msg.Restart == k {
			if len(o.Sent) != 0 || len(o.Trs) != 0 {
				fail("C02", "restart-existing-for-terminal-honoured", "a restart-existing-channel request for a terminal channel was honoured (request re-sent or transport re-opened)", fmt.Sprint(o.Sent, o.Trs))
			}
		}
	}

	// ---- channels never disappear, identities never change (C10 / C18 / C19)
	for k, b := range before {
		a, ok := after[k]
		if !ok {
			fail("C10", "channel-vanished:"+s.Kind, "a channel disappeared")
			continue
		}
		if a.Ident != b.Ident {
			fail("C10", "identity-changed:"+s.Kind, "id, peers, base cid, selector or opening voucher of a channel changed", a.Ident, b.Ident)
		}
		if !isPrefix(b.Vouchers, a.Vouchers) || !isPrefix(b.Results, a.Results) {
			fail("C19", "log-not-append-only:"+s.Kind, "a voucher or voucher-result log lost or rewrote entries")
		}
	}

	// ---- C09: every entry into a cleanup status is followed by exactly one cleanup and one un-protect,
	// and the channel settles in the matching terminal status
	{
		entries := map[chidTok]int{}
		prev := map[chidTok]datatransfer.Status{}
		for k, b := range before {
			prev[k] = b.Status
		}
		for _, e := range o.Events {
			st := e.St.Status()
			p, known := prev[e.K]
			if cleanupStatus(st) && (!known || !cleanupStatus(p) || e.Code == datatransfer.Cancel || e.Code == datatransfer.Error || e.Code == datatransfer.Complete || e.Code == datatransfer.CompleteCleanupOnRestart) {
				entries[e.K]++
			}
			prev[e.K] = st
		}
		cleanups := map[chidTok]int{}
		unprots := map[chidTok]int{}
		for _, t := range o.Trs {
			if t.Kind == "cleanup" {
				cleanups[t.K]++
			}
		}
		for _, u := range o.Unprots {
			unprots[u.K]++
		}
		for k, n := range entries {
			direct := 0
			if (s.Kind == "mrequest" || s.Kind == "trequest") && s.Msg.Type == mtCancel {
				direct = 1 // OnRequestReceived cleans the transport up itself before firing Cancel
			}
			if cleanups[k]-direct != n || unprots[k] != n {
				fail("C09", fmt.Sprintf("cleanup-count:%d-for-%d-entries", cleanups[k]-direct, n), "cleanup / un-protect did not run exactly once per entry into a cleanup status", fmt.Sprint(cleanups[k]-direct, unprots[k]), n)
			}
			if a, ok := after[k]; ok && !isTerminal(a.Status) {
				fail("C09", "did-not-settle", "a channel that entered a cleanup status did not settle in a terminal status", statusName(a.Status))
			}
		}
		for k, a := range after {
			b, ok := before[k]
			if ok && !isTerminal(b.Status) && isTerminal(a.Status) && entries[k] == 0 && !cleanupStatus(b.Status) {
				fail("C09", "terminal-without-cleanup", "a terminal status was reached without entering a cleanup status")
			}
		}
	}

	// ---- C09: closing
	if s.Kind == "close" || s.Kind == "closeerr" {
		if b, ok := before[s.K]; ok && !isTerminal(b.Status) {
			want := datatransfer.Cancelled
			if s.Kind == "closeerr" {
				want = datatransfer.Failed
			}
			if after[s.K].Status != want {
				fail("C09", "close-did-not-end:"+s.Kind, "closing did not end in the expected terminal status", statusName(after[s.K].Status), statusName(want))
			}
			closed := false
			for _, t := range o.Trs {
				if t.Kind == "close" && t.K == s.K {
					closed = true
				}
			}
			if !closed {
				fail("C09", "close-without-transport-close", "closing did not close the transport channel")
			}
			okMsg := false
			for _, m := range o.Sent {
				if m.Msg.Type == mtCancel && m.Msg.IsReq == b.SelfInit && m.To == b.Other && m.Msg.Tid == s.K.Tid {
					okMsg = true
				}
			}
			if !okMsg {
				fail("C09", "close-without-cancel-message", "closing did not send a cancel message of the role's kind to the counterparty", fmt.Sprint(o.Sent))
			}
		}
	}

	// ---- C04: only validated requests move data
	if (s.Kind == "mrequest" || s.Kind == "trequest") && (s.Msg.Type == mtNew || s.Msg.Type == mtRestart) && s.Msg.IsReq {
		k := s.K
		from := s.K.Init
		if s.Kind == "mrequest" {
			k = chidTok{s.From, self, s.Msg.Tid}
			from = s.From
		}
		var reply *msgSpec
		if s.Kind == "trequest" {
			reply = o.Msg
		} else {
			for idx := range o.Sent {
				if o.Sent[idx].To == from && !o.Sent[idx].Msg.IsReq {
					reply = &o.Sent[idx].Msg
				}
			}
			for idx := range o.Trs {
				if o.Trs[idx].Kind == "open" && o.Trs[idx].Msg != nil && !o.Trs[idx].Msg.IsReq {
					reply = o.Trs[idx].Msg
				}
			}
		}
		validated := false
		var val valSpec
		if len(o.Vals) > 0 {
			val = o.Vals[0].Res
			validated = val.Accepted && !val.Err
			want := 0
			if s.Msg.Pull {
				want = 1
			}
			if s.Msg.Type == mtRestart {
				want = 2
			}
			if o.Vals[0].Kind != want || o.Vals[0].K != k {
				fail("C04", "wrong-validator-consulted", "the validator was consulted with the wrong kind or channel", fmt.Sprint(o.Vals[0]))
			}
		}
		_, existed := before[k]
		_, exists := after[k]
		opened := false
		for _, t := range o.Trs {
			if t.Kind == "open" && t.K == k {
				opened = true
			}
		}
		restarted := false
		for _, e := range o.Events {
			if e.K == k && e.Code == datatransfer.Restart {
				restarted = true
			}
		}
		accepted := reply != nil && reply.Accepted
		if !validated {
			if accepted {
				fail("C04", "accepted-without-validation", "the reply says Accepted although the validator did not accept without error", *reply)
			}
			if !existed && exists {
				fail("C04", "channel-created-without-validation", "a channel was created for a request that was not validated")
			}
			if opened {
				fail("C04", "transport-opened-without-validation", "a transport channel was opened for a request that was not validated")
			}
			if restarted {
				fail("C04", "restarted-without-validation", "a Restart was recorded for a request that was not validated")
			}
			if reply == nil {
				fail("C04", "no-reply-to-unvalidated-request", "no (not accepted) reply was produced")
			}
			if s.Msg.Type == mtRestart && len(o.Vals) > 0 && !val.Err && !val.Accepted {
				// a rejected revalidation fails the channel and closes its transport
				if a, ok := after[k]; ok && a.Status != datatransfer.Failed {
					fail("C04", "rejected-restart-did-not-fail-channel", "a rejected restart did not fail the channel", statusName(a.Status))
				}
			}
			replyFailed := false
			for _, m := range o.Sent {
				if !m.OK {
					replyFailed = true // receiveRequest returns the send error before touching the transport
				}
			}
			if existed && s.Kind == "mrequest" && len(o.Vals) > 0 && !replyFailed {
				closed := false
				for _, t := range o.Trs {
					if t.Kind == "close" && t.K == k {
						closed = true
					}
				}
				if !closed {
					fail("C04", "unvalidated-request-transport-not-closed", "the transport channel was not closed after a failed (re)validation")
					fail("C09", "rejected-request-transport-not-closed", "the transport channel of a rejected request was not closed: its transport request is left behind")
				}
			}
			// a rejected request that arrived over the transport is answered with the rejection signal: the transport
			// terminates its request on that (any other answer, e.g. the pause signal, leaves the request alive)
			if s.Kind == "trequest" && len(o.Vals) > 0 && !val.Err && !val.Accepted && o.Ret != 2 && o.Ret != 98 && o.Ret != 99 {
				fail("C09", "rejected-transport-request-not-terminated", "a rejected request arriving over the transport was not answered with the rejection signal: the transport request stays open", o.Ret, 2)
				fail("C04", "rejected-transport-request-not-terminated", "a rejected request arriving over the transport was not answered with the rejection signal: the transport keeps serving it", o.Ret, 2)
			}
		} else if reply != nil {
			// exactly the validator's voucher result and pause decision; limit and finalization recorded
			if val.HasRes && (reply.VType != val.ResType || reply.VNode != val.ResNode) || !val.HasRes && reply.VType != "" {
				fail("C04", "reply-voucher-result-differs", "the reply does not carry exactly the validator's voucher result", *reply, val)
			}
			if s.Msg.Type == mtNew && reply.Accepted && reply.Pause != val.Force {
				fail("C04", "reply-pause-differs", "the accepted reply's pause flag is not the validator's ForcePause", *reply, val)
			}
			if a, ok := after[k]; ok && reply.Accepted && !isTerminal(a.Status) && (a.Limit != val.Limit || a.ReqFin != val.Fin) {
				fail("C04", "limit-or-finalization-not-recorded", "the channel does not record the validator's data limit and finalization requirement", fmt.Sprint(a.Limit, a.ReqFin), fmt.Sprint(val.Limit, val.Fin))
			}
		}
	}
	if s.Kind == "updatevalidation" {
		if b, ok := before[s.K]; ok && !b.SelfInit && !isTerminal(b.Status) && !s.Vr.Accepted {
			if after[s.K].Status != datatransfer.Failed {
				fail("C04", "rejecting-update-did-not-fail-channel", "a rejecting validation update did not fail the channel", statusName(after[s.K].Status))
			}
			closed := false
			for _, t := range o.Trs {
				if t.Kind == "close" && t.K == s.K {
					closed = true
				}
			}
			sendFailed := false
			for _, m := range o.Sent {
				if !m.OK {
					sendFailed = true
				}
			}
			if !closed && !sendFailed {
				fail("C08", "rejecting-update-did-not-close-transport", "a rejecting validation update did not close the transport channel")
				fail("C04", "rejecting-update-did-not-close-transport", "an existing channel was re-validated and rejected, yet its transport channel was not closed")
			}
		}
	}

	// ---- C05: only the message's own key may be touched; strangers and role-confused senders touch nothing
	if s.Kind == "mrequest" || s.Kind == "mresponse" || s.Kind == "mrestartexisting" {
		var k chidTok
		switch s.Kind {
		case "mrequest":
			k = chidTok{s.From, self, s.Msg.Tid}
		case "mresponse":
			k = chidTok{self, s.From, s.Msg.Tid}
		default:
			k = s.Msg.Restart
		}
		for kk, b := range before {
			if kk == k {
				continue
			}
			if after[kk].View != b.View || touchedTr(kk) || announced(kk) {
				fail("C05", "message-touched-another-channel:"+s.Kind, "a message changed, announced or sent transport commands for a channel that is not its own key", kk)
			}
		}
		if s.Kind == "mrestartexisting" {
			b, ok := before[k]
			honourable := ok && b.SelfInit && b.Other == s.From && !isTerminal(b.Status)
			if !honourable && (len(o.Sent) != 0 || len(o.Trs) != 0 || len(o.Events) != 0) {
				fail("C05", "restart-existing-honoured-wrongly", "a restart-existing-channel request was honoured although the receiver did not initiate the channel, the sender is not its counterparty, or it is terminated")
			}
		}
	}
	// local role checks
	if b, ok := before[s.K]; ok {
		if s.Kind == "sendvoucher" && !b.SelfInit && (o.Ret == 0 || len(o.Sent) != 0 || after[s.K].View != b.View) {
			fail("C05", "responder-sent-voucher", "a voucher was sent from a channel the node did not initiate")
		}
		if (s.Kind == "sendresult" || s.Kind == "updatevalidation") && b.SelfInit && (o.Ret == 0 || len(o.Sent) != 0 || len(o.Trs) != 0 || after[s.K].View != b.View) {
			fail("C05", "initiator-sent-"+s.Kind, "a voucher result / validation update was issued by the initiator")
		}
	}

	// ---- C05/C10: a restart request is honoured only if it repeats the original base cid, voucher type and voucher
	if (s.Kind == "mrequest" || s.Kind == "trequest") && s.Msg.Type == mtRestart {
		k := s.K
		if s.Kind == "mrequest" {
			k = chidTok{s.From, self, s.Msg.Tid}
		}
		if b, ok := before[k]; ok {
			orig := fmt.Sprint(k, self, b.Other)
			_ = orig
			matches := len(b.Vouchers) > 0 && coqVoucher(datatransfer.TypeIdentifier(s.Msg.VType), s.Msg.VNode) == b.Vouchers[0] && s.Msg.VNode != 0
			// base cid is part of Ident; compare through the view text
			sameBase := containsField(b.Ident, s.Msg.BaseCid)
			honoured := false
			for _, e := range o.Events {
				if e.K == k && e.Code == datatransfer.Restart {
					honoured = true
				}
			}
			if honoured && !(matches && sameBase && !b.SelfInit && !isTerminal(b.Status)) {
				fail("C05", "mismatching-restart-honoured", "a restart request that does not repeat the original base cid / voucher type / voucher (or not from the initiator of a live channel) was honoured")
			}
			if !honoured && matches && sameBase && !b.SelfInit && !isTerminal(b.Status) && len(o.Vals) > 0 && o.Vals[0].Res.Accepted && !o.Vals[0].Res.Err {
				fail("C10", "valid-restart-not-honoured", "a valid, validated restart request from the initiator was not honoured")
			}
		}
	}

	// ---- C10 / C07: recorded progress never goes back, whatever is reported (after a restart the transport walks the
	// blocks it already holds again, from index 1: the counts a later restart skips by must survive that)
	for k, b := range before {
		if a, ok := after[k]; ok {
			for i := range a.Counts {
				if a.Counts[i] < b.Counts[i] {
					fail("C10", "recorded-progress-decreased:"+s.Kind, "a recorded byte total or block count decreased: a later restart would skip fewer blocks than were transferred", a.Progress, b.Progress)
					fail("C07", "recorded-progress-decreased:"+s.Kind, "a recorded byte total or block count decreased", a.Progress, b.Progress)
					break
				}
			}
		}
	}

	// ---- C10: restarts keep identity and progress, re-issue the original request, create nothing
	if s.Kind == "restart" || s.Kind == "mrestartexisting" || ((s.Kind == "mrequest" || s.Kind == "trequest" || s.Kind == "mresponse" || s.Kind == "tresponse") && s.Msg.Type == mtRestart) {
		for k, b := range before {
			if a, ok := after[k]; ok && (a.Progress != b.Progress || !eqStrs(a.Vouchers, b.Vouchers)) {
				fail("C10", "restart-changed-progress:"+s.Kind, "a restart path changed recorded progress or the voucher log", a.Progress, b.Progress)
			}
		}
		if len(after) != len(before) {
			fail("C10", "restart-created-channel:"+s.Kind, "a restart path created a channel")
		}
		// every re-issued request is the original one marked as a restart
		check := func(m msgSpec, k chidTok) {
			b, ok := before[k]
			if !ok || !m.IsReq || m.Type != mtRestart {
				return
			}
			v := coqVoucher(datatransfer.TypeIdentifier(m.VType), m.VNode)
			if m.Tid != k.Tid || m.Pull != b.Pull || len(b.Vouchers) == 0 || v != b.Vouchers[0] || !containsField(b.Ident, m.BaseCid) {
				fail("C10", "reissued-request-differs", "the re-issued restart request differs from the original (transfer id, direction, opening voucher, base cid)", m, b.Ident)
			}
		}
		for _, m := range o.Sent {
			check(m.Msg, chidTok{self, m.To, m.Msg.Tid})
		}
		for _, t := range o.Trs {
			if t.Kind == "open" && t.Msg != nil {
				check(*t.Msg, t.K)
				if t.Msg.IsReq && !t.HasState {
					fail("C10", "restart-open-without-state", "the transport channel was re-opened without the stored channel state (skip count lost)")
				}
			}
		}
		if s.Kind == "restart" {
			if b, ok := before[s.K]; ok && !b.SelfInit && !isTerminal(b.Status) && !cleanupStatus(b.Status) {
				// responder: re-validates, then asks the initiator
				asked := false
				for _, m := range o.Sent {
					if m.Msg.Type == mtRestartExisting && m.To == b.Other && m.Msg.Restart == s.K {
						asked = true
					}
				}
				validated := len(o.Vals) > 0 && o.Vals[0].Kind == 2 && o.Vals[0].Res.Accepted && !o.Vals[0].Res.Err
				if asked && !validated {
					fail("C10", "responder-restart-without-revalidation", "the responder asked for a restart without a successful re-validation")
				}
				if !asked && validated && o.Ret == 0 {
					fail("C10", "responder-restart-did-not-ask", "the responder's restart did not ask the initiator to restart")
				}
			}
		}
	}

	// ---- C11: local pause / resume, and staying paused when the counterparty resumes
	if s.Kind == "pause" || s.Kind == "resume" {
		if b, ok := before[s.K]; ok {
			want := "pause"
			if s.Kind == "resume" {
				want = "resume"
			}
			found := false
			for _, t := range o.Trs {
				if t.Kind == want && t.K == s.K {
					found = true
					if want == "resume" && (t.Msg == nil || t.Msg.Type != mtUpdate || t.Msg.Pause || t.Msg.IsReq != b.SelfInit) {
						fail("C11", "resume-message-kind", "the resume message handed to the transport is not an un-paused update of the role's kind")
					}
				}
			}
			if !found {
				fail("C11", "local-"+want+"-not-applied-to-transport", "a local pause/resume was not applied to the transport")
			}
			if s.Kind == "pause" {
				okMsg := false
				for _, m := range o.Sent {
					if m.Msg.Type == mtUpdate && m.Msg.Pause && m.Msg.IsReq == b.SelfInit && m.To == b.Other {
						okMsg = true
					}
				}
				if !okMsg {
					fail("C11", "pause-not-announced", "a local pause was not announced to the counterparty with an update message of the role's kind")
				}
			}
			for _, e := range o.Events {
				if e.K != s.K {
					continue
				}
				a := after[s.K]
				switch e.Code {
				case datatransfer.PauseInitiator:
					if !a.IPaused || !b.SelfInit {
						fail("C11", "pause-flag-wrong-party", "pausing did not set the local party's flag")
					}
				case datatransfer.PauseResponder:
					if !a.RPaused || b.SelfInit {
						fail("C11", "pause-flag-wrong-party", "pausing did not set the local party's flag")
					}
				case datatransfer.ResumeInitiator:
					if a.IPaused || !b.SelfInit {
						fail("C11", "resume-flag-wrong-party", "resuming did not clear the local party's flag")
					}
				case datatransfer.ResumeResponder:
					if b.SelfInit {
						fail("C11", "resume-flag-wrong-party", "resuming did not clear the local party's flag")
					}
				}
			}
			// while data may still flow a local resume always takes effect
			if a := after[s.K]; s.Kind == "resume" && o.Ret == 0 {
				if b.SelfInit && transferring(b.Status) && a.IPaused {
					fail("C11", "resume-ignored-while-transferring", "the initiator resumed a transferring channel but still counts as paused", statusName(b.Status))
				}
				if !b.SelfInit && (b.Status == datatransfer.Ongoing || b.Status == datatransfer.Queued) && a.RPaused {
					fail("C11", "resume-ignored-while-transferring", "the responder resumed a transferring channel but still counts as paused", statusName(b.Status))
				}
			}
			if other := after[s.K]; b.SelfInit && other.RPaused != b.RPaused && !isTerminal(other.Status) && other.Status == b.Status {
				fail("C11", "local-action-changed-other-flag", "a local pause/resume changed the other party's flag")
			}
		}
	}
	// ---- C11: each side's record of the counterparty's pause state follows the counterparty's pause / resume
	// messages, whatever the local side's own pause state is at that moment
	if (s.Kind == "mrequest" || s.Kind == "mresponse" || s.Kind == "trequest" || s.Kind == "tresponse") && s.Msg.Type == mtUpdate {
		isReq := s.Kind == "mrequest" || s.Kind == "trequest"
		k := s.K
		if s.Kind == "mrequest" {
			k = chidTok{s.From, self, s.Msg.Tid}
		} else if s.Kind == "mresponse" {
			k = chidTok{self, s.From, s.Msg.Tid}
		}
		both := func(st datatransfer.Status) bool { // statuses in which the table accepts both the pause and the resume of either party
			return st == datatransfer.Ongoing || st == datatransfer.Requested || st == datatransfer.Queued || st == datatransfer.AwaitingAcceptance
		}
		if b, ok := before[k]; ok && both(b.Status) && s.Msg.IsReq == isReq && b.SelfInit != isReq && k.Init != k.Resp {
			if a, ok := after[k]; ok && a.Status == b.Status {
				got := a.RPaused
				if isReq {
					got = a.IPaused
				}
				if got != s.Msg.Pause {
					fail("C11", "counterparty-pause-state-not-recorded", "the counterparty announced its pause state but this side's record of it did not follow (the local side's own pause state must not matter)",
						fmt.Sprintf("recorded=%v self-paused-before=%v", got, b.SelfP), s.Msg.Pause)
				}
			}
		}
	}
	if (s.Kind == "mrequest" || s.Kind == "mresponse") && s.Msg.Type == mtUpdate && !s.Msg.Pause {
		k := chidTok{s.From, self, s.Msg.Tid}
		if s.Kind == "mresponse" {
			k = chidTok{self, s.From, s.Msg.Tid}
		}
		if b, ok := before[k]; ok && b.SelfP && !isTerminal(b.Status) && after[k].SelfP {
			paused := false
			for _, t := range o.Trs {
				if t.Kind == "pause" && t.K == k {
					paused = true
				}
			}
			if !paused && len(o.Events) > 0 {
				fail("C11", "did-not-stay-paused", "the counterparty resumed while the local side is paused, but the transport was not told to stay paused")
			}
		}
	}

	// ---- C08: the pause signal, its announcement, and the resume rule of validation updates
	if s.Kind == "tdata" && o.Ret == 1 {
		a, ok := after[s.K]
		if !ok || !a.RPaused {
			fail("C08", "pause-signal-without-paused-responder", "a block report returned the pause signal but the responder is not marked paused")
		}
		if ok {
			if a.Limit == 0 {
				fail("C08", "pause-with-limit-zero", "a block report returned the pause signal although the data limit is zero")
			}
			limited := a.Received
			if s.Kd == 0 {
				limited = a.Queued
			}
			if b, was := before[s.K]; was && transferring(b.Status) && limited < a.Limit && b.Pull == (s.Kd == 0) {
				fail("C08", "pause-below-limit", "a block report returned the pause signal below the limit", limited, a.Limit)
			}
		}
		if s.Kd == 2 {
			told := false
			for _, m := range o.Sent {
				if !m.Msg.IsReq && m.Msg.Type == mtUpdate && m.Msg.Pause && m.To == s.K.Init {
					told = true
				}
			}
			if !told {
				fail("C08", "pause-not-announced-to-initiator", "the data-limit pause of a push was not announced to the initiator")
			}
		}
		if s.Kd == 0 && (o.Msg == nil || o.Msg.IsReq || o.Msg.Type != mtUpdate || !o.Msg.Pause) {
			fail("C08", "pause-message-not-returned", "the data-limit pause of a pull did not return the paused update for the initiator")
		}
	}
	if s.Kind == "tdata" && o.Ret == 0 && s.Kd != 1 && s.Unique {
		if b, ok := before[s.K]; ok && transferring(b.Status) && !b.SelfInit {
			a := after[s.K]
			limitedB, limitedA := b.Received, a.Received
			if s.Kd == 0 {
				limitedB, limitedA = b.Queued, a.Queued
			}
			if a.Limit != 0 && limitedA > limitedB && limitedA >= a.Limit && (b.Pull == (s.Kd == 0)) {
				fail("C08", "no-pause-at-limit", "a block report brought the limited total to or past the limit without the pause signal", limitedA, a.Limit)
			}
		}
	}
	if s.Kind == "updatevalidation" && s.Vr.Accepted {
		if b, ok := before[s.K]; ok && !b.SelfInit && !isTerminal(b.Status) && !cleanupStatus(b.Status) && o.Ret == 0 {
			progress := b.Received
			if b.Pull {
				progress = b.Queued
			}
			mayResume := !s.Vr.Force && (s.Vr.Limit == 0 || progress < s.Vr.Limit) && !(s.Vr.Fin && inFinalization(b.Status))
			resumed := false
			for _, t := range o.Trs {
				if t.Kind == "resume" && t.K == s.K {
					resumed = true
				}
			}
			if b.RPaused && !inFinalization(b.Status) {
				if resumed != mayResume {
					fail("C08", "resume-rule", fmt.Sprintf("a validation update on a paused responder resumed=%v but the rule says %v (force=%v limit=%d progress=%d)", resumed, mayResume, s.Vr.Force, s.Vr.Limit, progress))
					fail("C04", "pause-decision-not-the-validators", fmt.Sprintf("after a validation update the channel was resumed=%v although the validator's result (force=%v limit=%d against progress=%d) decides %v", resumed, s.Vr.Force, s.Vr.Limit, progress, mayResume))
				}
			} else if resumed {
				fail("C08", "resume-of-unpaused", "a validation update resumed a transport channel that was not paused (or is finalizing)")
			}
			if !mayResume && !inFinalization(b.Status) && !after[s.K].RPaused && after[s.K].Status == b.Status {
				fail("C08", "stays-paused-rule", "a validation update whose limit is already reached (or forced pause) did not leave the responder paused")
				fail("C04", "pause-decision-not-the-validators", "the validator's result leaves the request paused (limit already reached, or forced pause) but the responder did not stay paused")
			}
		}
	}

	// ---- C05 / C08: whatever the node sends about a transfer goes to that transfer's counterparty (requests from
	// the initiator to the responder, responses the other way), or back to the peer whose message is being answered
	for _, sm := range o.Sent {
		if sm.Msg.Type == mtRestartExisting {
			continue // names its channel in the body, checked with the restart monitors
		}
		k := chidTok{sm.To, self, sm.Msg.Tid}
		if sm.Msg.IsReq {
			k = chidTok{self, sm.To, sm.Msg.Tid}
		}
		_, was := before[k]
		_, is := after[k]
		answering := (s.Kind == "mrequest" || s.Kind == "mresponse" || s.Kind == "mrestartexisting") && s.From == sm.To
		// a local call or transport callback that names a channel id (existing or not) with this peer and transfer id
		named := s.K.Tid == sm.Msg.Tid && (s.K.Init == sm.To || s.K.Resp == sm.To)
		if !was && !is && !answering && !named {
			fail("C05", "message-to-non-counterparty", "a message about a transfer was sent to a peer that is not that transfer's counterparty in the role the message implies", fmt.Sprint(sm.To, sm.Msg), nil)
			fail("C08", "message-to-non-counterparty", "a message about a transfer was sent to a peer that is not that transfer's counterparty", fmt.Sprint(sm.To, sm.Msg), nil)
		}
	}

	// ---- C01 / C03: a Complete-type response leaves a responder only when its own transport has just completed
	// (the local completion input) or while its channel is in finalization (Finalizing, Completing, Completed):
	// never in the middle of a transfer, where the initiator would take an un-paused one for the final Complete
	{
		check := func(m msgSpec, to int) {
			if m.IsReq || m.Type != mtComplete {
				return
			}
			k := chidTok{to, self, m.Tid}
			b, was := before[k]
			if s.Kind == "tcompleted" && s.K == k {
				return
			}
			if was && !inFinalization(b.Status) && !isTerminal(b.Status) && !cleanupStatus(b.Status) {
				fail("C01", "complete-message-outside-finalization", "a responder sent a Complete-type response although its transport had not completed and its channel was not in finalization", fmt.Sprint(statusName(b.Status), " ", s.Kind, " pause=", m.Pause), nil)
				fail("C03", "complete-message-outside-finalization", "a responder sent a Complete-type response although its transport had not completed and its channel was not in finalization", fmt.Sprint(statusName(b.Status), " ", s.Kind, " pause=", m.Pause), nil)
			}
		}
		for _, sm := range o.Sent {
			check(sm.Msg, sm.To)
		}
		for _, t := range o.Trs {
			if t.Msg != nil {
				check(*t.Msg, t.K.Init)
			}
		}
		if o.Msg != nil && (s.Kind == "trequest" || s.Kind == "tdata") {
			check(*o.Msg, s.K.Init)
		}
	}

	// ---- C03 (and C01): a responder that awaits finalization is held there -- reporting itself paused -- by every
	// validation update that still requires finalization, whatever its data limit says; only an update that no
	// longer requires it releases the channel
	if s.Kind == "updatevalidation" && s.Vr.Accepted && s.Vr.Fin && o.Ret == 0 {
		if b, ok := before[s.K]; ok && !b.SelfInit && b.Status == datatransfer.Finalizing {
			if a, ok := after[s.K]; ok && a.Status != datatransfer.Finalizing {
				fail("C03", "finalizing-released-while-finalization-required", "a validation update that still requires finalization released a responder that was awaiting finalization", statusName(a.Status), "Finalizing")
				fail("C01", "finalizing-released-while-finalization-required", "a validation update that still requires finalization released a responder that was awaiting finalization: it tells the initiator it has completed", statusName(a.Status), "Finalizing")
			}
			for _, sm := range o.Sent {
				if !sm.Msg.IsReq && sm.Msg.Tid == s.K.Tid && !sm.Msg.Pause {
					fail("C03", "finalizing-announced-unpaused", "a responder still awaiting finalization announced itself un-paused after a validation update that requires finalization")
				}
			}
		}
	}

	// ---- C18: transfer ids issued by opens are new and strictly increasing
	if s.Kind == "open" && o.Chid != nil {
		real := r.tids.real(o.Chid.Tid)
		for _, prev := range r.issued {
			if real <= prev {
				fail("C18", "transfer-id-not-increasing", "an opened channel's transfer id is not above the ids issued before", real, prev)
			}
		}
		r.issued = append(r.issued, real)
		if _, existed := before[*o.Chid]; existed {
			fail("C18", "opened-existing-channel-id", "an open returned a channel id that already existed")
		}
	}
	// a duplicate new request leaves the existing channel exactly as it was and is not accepted
	if (s.Kind == "mrequest" || s.Kind == "trequest") && s.Msg.Type == mtNew {
		k := s.K
		if s.Kind == "mrequest" {
			k = chidTok{s.From, self, s.Msg.Tid}
		}
		if b, ok := before[k]; ok {
			if after[k].View != b.View {
				fail("C18", "duplicate-new-request-changed-channel", "a duplicate new request changed the existing channel", after[k].View, b.View)
			}
			for _, m := range append(sentMsgs(o), returnedMsg(o)...) {
				if !m.IsReq && m.Type == mtNew && m.Accepted {
					fail("C18", "duplicate-new-request-accepted", "a duplicate new request was accepted")
				}
			}
		}
	}

	// ---- C19: who records which voucher, and when
	if s.Kind == "sendvoucher" || s.Kind == "sendresult" {
		if b, ok := before[s.K]; ok && !isTerminal(b.Status) {
			a := after[s.K]
			sentOK := len(o.Sent) > 0 && o.Sent[0].OK
			v := coqVoucher(datatransfer.TypeIdentifier(s.VType), s.VNode)
			log0, log1 := b.Vouchers, a.Vouchers
			if s.Kind == "sendresult" {
				log0, log1 = b.Results, a.Results
			}
			if !sentOK && !eqStrs(log0, log1) {
				fail("C19", "recorded-without-successful-send", "a voucher (result) was recorded although it was not sent")
			}
			if sentOK && o.Ret == 0 && !(len(log1) == len(log0)+1 && log1[len(log1)-1] == v) {
				fail("C19", "sent-but-not-recorded-once", "a sent voucher (result) was not recorded exactly once at the end of the log")
			}
		}
	}
	// a voucher result that arrives with a response to a validation attempt (new, restart, voucher result,
	// complete) is recorded once at the end of the result log, whether the response accepts or rejects
	if (s.Kind == "mresponse" || s.Kind == "tresponse") && !s.Msg.IsReq && s.Msg.VNode != 0 && s.Msg.VType != "" &&
		(s.Msg.Type == mtNew || s.Msg.Type == mtRestart || s.Msg.Type == mtVoucherResult || s.Msg.Type == mtComplete) {
		k := s.K
		if s.Kind == "mresponse" {
			k = chidTok{self, s.From, s.Msg.Tid}
		}
		if b, ok := before[k]; ok && b.SelfInit && !isTerminal(b.Status) && !cleanupStatus(b.Status) && (s.Kind == "tresponse" || s.From == b.Other) {
			if a, ok := after[k]; ok {
				v := coqVoucher(datatransfer.TypeIdentifier(s.Msg.VType), s.Msg.VNode)
				if !(len(a.Results) == len(b.Results)+1 && a.Results[len(a.Results)-1] == v) {
					fail("C19", "received-result-not-recorded-once", "a voucher result received with the counterparty's response was not recorded exactly once at the end of the result log", a.Results, append(append([]string(nil), b.Results...), v))
				}
			}
		}
	}
	if (s.Kind == "mrequest" || s.Kind == "trequest") && s.Msg.Type == mtVoucher && s.Msg.VNode != 0 {
		k := s.K
		if s.Kind == "mrequest" {
			k = chidTok{s.From, self, s.Msg.Tid}
		}
		if b, ok := before[k]; ok && !isTerminal(b.Status) && !cleanupStatus(b.Status) {
			a := after[k]
			v := coqVoucher(datatransfer.TypeIdentifier(s.Msg.VType), s.Msg.VNode)
			if !(len(a.Vouchers) == len(b.Vouchers)+1 && a.Vouchers[len(a.Vouchers)-1] == v) {
				fail("C19", "received-voucher-not-recorded-once", "a received voucher was not recorded exactly once")
			}
		}
	}
}

func sentMsgs(o nObs) []msgSpec {
	var out []msgSpec
	for _, m := range o.Sent {
		out = append(out, m.Msg)
	}
	for _, t := range o.Trs {
		if t.Msg != nil {
			out = append(out, *t.Msg)
		}
	}
	return out
}
func returnedMsg(o nObs) []msgSpec {
	if o.Msg != nil {
		return []msgSpec{*o.Msg}
	}
	return nil
}

// containsField: the identity string lists the base cid token as its 7th printed field
func containsField(ident string, baseTok int) bool {
	var a, b, c, d, e, f, g int
	var tid uint64
	var pull bool
	n, _ := fmt.Sscanf(ident, "{%d %d %d} %d %d %d %d %t %d", &a, &b, &tid, &c, &d, &e, &f, &pull, &g)
	if n < 9 {
		return false
	}
	return g == baseTok
}
