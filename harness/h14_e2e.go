package main

import (
	"bytes"
	"context"
	"fmt"
	"io"
	"strings"
	"sync"
	"time"

	"github.com/ipfs/boxo/blockservice"
	bstore "github.com/ipfs/boxo/blockstore"
	chunker "github.com/ipfs/boxo/chunker"
	offline "github.com/ipfs/boxo/exchange/offline"
	files "github.com/ipfs/boxo/files"
	"github.com/ipfs/boxo/ipld/merkledag"
	unixfile "github.com/ipfs/boxo/ipld/unixfs/file"
	"github.com/ipfs/boxo/ipld/unixfs/importer/balanced"
	ihelper "github.com/ipfs/boxo/ipld/unixfs/importer/helpers"
	"github.com/ipfs/go-cid"
	"github.com/ipfs/go-datastore"
	"github.com/ipfs/go-datastore/namespace"
	dss "github.com/ipfs/go-datastore/sync"
	gsimpl "github.com/ipfs/go-graphsync/impl"
	gsnet "github.com/ipfs/go-graphsync/network"
	"github.com/ipfs/go-graphsync/storeutil"
	ipldformat "github.com/ipfs/go-ipld-format"
	"github.com/ipld/go-ipld-prime"
	"github.com/ipld/go-ipld-prime/datamodel"
	basicnode "github.com/ipld/go-ipld-prime/node/basic"
	"github.com/ipld/go-ipld-prime/traversal/selector"
	"github.com/ipld/go-ipld-prime/traversal/selector/builder"
	"github.com/libp2p/go-libp2p/core/host"
	"github.com/libp2p/go-libp2p/core/peer"
	mocknet "github.com/libp2p/go-libp2p/p2p/net/mock"

	datatransfer "github.com/filecoin-project/go-data-transfer/v2"
	"github.com/filecoin-project/go-data-transfer/v2/impl"
	"github.com/filecoin-project/go-data-transfer/v2/network"
	gstransport "github.com/filecoin-project/go-data-transfer/v2/transport/graphsync"
)

// ---------- e2e: two real nodes over real graphsync and a libp2p mock network (C01) ----------

type e2eNode struct {
	host  host.Host
	ds    datastore.Batching
	bs    bstore.Blockstore
	dag   ipldformat.DAGService
	lsys  ipld.LinkSystem
	mgr   datatransfer.Manager
	mu    sync.Mutex
	evs   []datatransfer.EventCode
	stats map[datatransfer.ChannelID]datatransfer.Status

	procCancel  context.CancelFunc
	beforeStart []func(datatransfer.Manager) // registrations repeated at every boot
	afterStart  []func(datatransfer.Manager)
}

type e2eValidator struct {
	mu     sync.Mutex
	result datatransfer.ValidationResult
}

func (v *e2eValidator) ValidatePush(chid datatransfer.ChannelID, sender peer.ID, voucher datamodel.Node, baseCid cid.Cid, selector datamodel.Node) (datatransfer.ValidationResult, error) {
	v.mu.Lock()
	defer v.mu.Unlock()
	return v.result, nil
}
func (v *e2eValidator) ValidatePull(chid datatransfer.ChannelID, receiver peer.ID, voucher datamodel.Node, baseCid cid.Cid, selector datamodel.Node) (datatransfer.ValidationResult, error) {
	v.mu.Lock()
	defer v.mu.Unlock()
	return v.result, nil
}
func (v *e2eValidator) ValidateRestart(chid datatransfer.ChannelID, channel datatransfer.ChannelState) (datatransfer.ValidationResult, error) {
	v.mu.Lock()
	defer v.mu.Unlock()
	r := v.result
	r.DataLimit = channel.DataLimit()
	r.RequiresFinalization = channel.RequiresFinalization()
	return r, nil
}

func newE2ENode(ctx context.Context, h host.Host) *e2eNode {
	ds := dss.MutexWrap(datastore.NewMapDatastore())
	n := &e2eNode{host: h, ds: namespace.Wrap(ds, datastore.NewKey("datatransfer")), stats: map[datatransfer.ChannelID]datatransfer.Status{}}
	n.bs = bstore.NewBlockstore(namespace.Wrap(ds, datastore.NewKey("blockstore")))
	n.dag = merkledag.NewDAGService(blockservice.New(n.bs, offline.Exchange(n.bs)))
	n.lsys = storeutil.LinkSystemForBlockstore(n.bs)
	n.boot(ctx)
	return n
}

// boot starts a "process" on the node's stores and host: a fresh graphsync, transport and manager
func (n *e2eNode) boot(ctx context.Context) {
	pctx, cancel := context.WithCancel(ctx)
	n.procCancel = cancel
	gs := gsimpl.New(pctx, gsnet.NewFromLibp2pHost(n.host), n.lsys)
	dtnet := network.NewFromLibp2pHost(n.host, network.RetryParameters(0, 0, 0, 0))
	tp := gstransport.NewTransport(n.host.ID(), gs)
	m, err := impl.NewDataTransfer(n.ds, dtnet, tp)
	if err != nil {
		panic(err)
	}
	n.mgr = m
	for _, f := range n.beforeStart {
		f(m)
	}
	ready := make(chan error, 1)
	m.OnReady(func(e error) { ready <- e })
	if err := m.Start(ctx); err != nil {
		panic(err)
	}
	<-ready
	m.SubscribeToEvents(func(evt datatransfer.Event, st datatransfer.ChannelState) {
		n.mu.Lock()
		n.evs = append(n.evs, evt.Code)
		n.stats[st.ChannelID()] = st.Status()
		n.mu.Unlock()
	})
	for _, f := range n.afterStart {
		f(m)
	}
}

// kill stops the process (manager, transport, graphsync); the stores and the host stay
func (n *e2eNode) kill(ctx context.Context) {
	_ = n.mgr.Stop(ctx)
	n.procCancel()
}

// payload with a chosen pattern of (possibly repeated) 1 KiB chunks
func e2ePayload(r *rng) ([]byte, string) {
	nchunks := []int{1, 1, 2, 5, 12, 30}[r.intn(6)]
	distinct := 1 + r.intn(4)
	if r.chance(50) {
		distinct = nchunks + 1 // all different
	}
	var buf bytes.Buffer
	pat := ""
	for i := 0; i < nchunks; i++ {
		k := r.intn(distinct)
		if distinct > nchunks {
			k = i
		}
		chunk := bytes.Repeat([]byte{byte('a' + k%26)}, 1024)
		chunk[0], chunk[1] = byte(k), byte(k>>8)
		buf.Write(chunk)
		pat += string(rune('A' + k%26))
	}
	if r.chance(40) {
		tail := bytes.Repeat([]byte{'z'}, 1+r.intn(1000))
		buf.Write(tail)
		pat += "+tail"
	}
	return buf.Bytes(), pat
}

func importFile(ctx context.Context, dag ipldformat.DAGService, data []byte) (cid.Cid, error) {
	buffered := ipldformat.NewBufferedDAG(ctx, dag)
	params := ihelper.DagBuilderParams{Maxlinks: 8, RawLeaves: true, Dagserv: buffered}
	db, err := params.New(chunker.NewSizeSplitter(files.NewReaderFile(bytes.NewReader(data)), 1024))
	if err != nil {
		return cid.Undef, err
	}
	nd, err := balanced.Layout(db)
	if err != nil {
		return cid.Undef, err
	}
	return nd.Cid(), buffered.Commit()
}

// unique payload size: summed sizes of the distinct blocks of the DAG
func uniqueSize(ctx context.Context, dag ipldformat.DAGService, root cid.Cid) (uint64, int, error) {
	seen := map[cid.Cid]bool{}
	var total uint64
	var walk func(c cid.Cid) error
	walk = func(c cid.Cid) error {
		if seen[c] {
			return nil
		}
		seen[c] = true
		nd, err := dag.Get(ctx, c)
		if err != nil {
			return err
		}
		total += uint64(len(nd.RawData()))
		for _, l := range nd.Links() {
			if err := walk(l.Cid); err != nil {
				return err
			}
		}
		return nil
	}
	err := walk(root)
	return total, len(seen), err
}

func readFile(ctx context.Context, dag ipldformat.DAGService, root cid.Cid) ([]byte, error) {
	nd, err := dag.Get(ctx, root)
	if err != nil {
		return nil, err
	}
	f, err := unixfile.NewUnixfsFile(ctx, dag, nd)
	if err != nil {
		return nil, err
	}
	ff, ok := f.(files.File)
	if !ok {
		return nil, fmt.Errorf("not a file")
	}
	return io.ReadAll(ff)
}

type e2eScenario struct {
	Pull       bool
	Limit      uint64 // first data limit (0 none); raised step by step when exceeded
	LimitStep  uint64
	Finalize   bool
	ForcePause bool
	PauseInit  int // initiator pauses after this many data events (0 never), resumes 20ms later
	PauseResp  int
	Pattern    string
	Size       int
	OwnStore   bool // per-channel store on the receiver via a transport configurer
}

func (s e2eScenario) String() string {
	return fmt.Sprintf("pull=%v payload=%s(%dB) limit=%d+%d finalize=%v force-pause=%v pause-initiator@%d pause-responder@%d own-store=%v",
		s.Pull, s.Pattern, s.Size, s.Limit, s.LimitStep, s.Finalize, s.ForcePause, s.PauseInit, s.PauseResp, s.OwnStore)
}

func runE2E(dir string, seed uint64, tier string) {
	res := newResult("e2e", seed, tier)
	r := newRng(seed)
	n := 60
	if tier == "thorough" {
		n = 1200
	}
	fail := func(id int, sig, what, input string, obs, exp interface{}) {
		res.fail(monitorFailure{Property: "C01", CaseID: id, Signature: sig, What: what, Input: input, Observed: obs, Expected: exp})
	}
	allSelector := func() datamodel.Node {
		ssb := builder.NewSelectorSpecBuilder(basicnode.Prototype.Any)
		return ssb.ExploreRecursive(selector.RecursionLimitNone(), ssb.ExploreAll(ssb.ExploreRecursiveEdge())).Node()
	}()
	completed := 0
	for id := 1; id <= n; id++ {
		data, pat := e2ePayload(r)
		sc := e2eScenario{Pull: r.chance(50), Finalize: r.chance(30), ForcePause: r.chance(15), Pattern: pat, Size: len(data), OwnStore: r.chance(30)}
		if r.chance(45) {
			sc.Limit = uint64(500 + r.intn(4000))
			sc.LimitStep = uint64(1000 + r.intn(6000))
		}
		if r.chance(30) {
			sc.PauseInit = 1 + r.intn(4)
		}
		if r.chance(30) {
			sc.PauseResp = 1 + r.intn(4)
		}
		label := sc.String()
		res.CaseLabels = append(res.CaseLabels, label)
		if onlyCase != 0 && onlyCase != id {
			continue
		}
		ok := false
		caseID, caseSc, caseData := id, sc, data
		e2eWatchdog(res, dir, caseID, label, func() { ok = runE2ECase(res, caseID, label, caseSc, caseData, allSelector, fail) })
		if ok {
			completed++
		}
		res.distinct(label)
		res.hist(fmt.Sprintf("pull:%v", sc.Pull))
		res.hist(fmt.Sprintf("limit:%v", sc.Limit != 0))
		res.hist(fmt.Sprintf("finalize:%v", sc.Finalize))
	}
	res.Cases = n
	res.Extra["initiator_completed"] = completed
	res.Rule = "two real managers over real graphsync, the real libp2p data-transfer network and a mock libp2p network: push / pull x UnixFS payloads of 0-30 chunks with repeated and distinct blocks (+ ragged tail) x data limits raised in rounds through UpdateValidationStatus x finalization released by the responder's application x forced initial pause x initiator / responder pauses after k data events x default / per-channel receiver store; whenever the initiator reports Completed: responder Completed, receiver holds the byte-identical payload, Received = Queued = Sent = unique payload size"
	res.write(dir)
}

func runE2ECase(res *suiteResult, id int, label string, sc e2eScenario, data []byte, sel datamodel.Node, fail func(int, string, string, string, interface{}, interface{})) bool {
	ctx, cancel := context.WithCancel(context.Background())
	defer cancel()
	mn := mocknet.New()
	defer mn.Close()
	h1, err := mn.GenPeer()
	if err != nil {
		panic(err)
	}
	h2, err := mn.GenPeer()
	if err != nil {
		panic(err)
	}
	if err := mn.LinkAll(); err != nil {
		panic(err)
	}
	ini, rsp := newE2ENode(ctx, h1), newE2ENode(ctx, h2)
	defer func() { _ = ini.mgr.Stop(ctx); _ = rsp.mgr.Stop(ctx) }()
	sender, receiver := ini, rsp
	if sc.Pull {
		sender, receiver = rsp, ini
	}
	root, err := importFile(ctx, sender.dag, data)
	if err != nil {
		fail(id, "e2e-setup", "importing the payload failed: "+err.Error(), label, nil, nil)
		return false
	}
	uniq, nblocks, err := uniqueSize(ctx, sender.dag, root)
	if err != nil {
		fail(id, "e2e-setup", "walking the payload failed: "+err.Error(), label, nil, nil)
		return false
	}
	val := &e2eValidator{result: datatransfer.ValidationResult{Accepted: true, DataLimit: sc.Limit, RequiresFinalization: sc.Finalize, ForcePause: sc.ForcePause}}
	_ = rsp.mgr.RegisterVoucherType("T1", val)
	_ = ini.mgr.RegisterVoucherType("T1", val)
	// per-channel store on the receiver
	var ownBs bstore.Blockstore
	if sc.OwnStore {
		ownBs = bstore.NewBlockstore(dss.MutexWrap(datastore.NewMapDatastore()))
		lsys := storeutil.LinkSystemForBlockstore(ownBs)
		_ = receiver.mgr.RegisterTransportConfigurer("T1", func(chid datatransfer.ChannelID, v datatransfer.TypedVoucher) []datatransfer.TransportOption {
			return []datatransfer.TransportOption{gstransport.UseStore(lsys)}
		})
	}
	// the responder's application: raises the limit when it is hit, releases finalization, un-pauses a forced pause
	limit := sc.Limit
	var appMu sync.Mutex
	dataEvents := map[*e2eNode]int{}
	rsp.mgr.SubscribeToEvents(func(evt datatransfer.Event, st datatransfer.ChannelState) {
		switch evt.Code {
		case datatransfer.DataLimitExceeded:
			appMu.Lock()
			limit += sc.LimitStep
			l := limit
			appMu.Unlock()
			go func() {
				// the event is announced before the transport has paused: give the pause time to land
				time.Sleep(40 * time.Millisecond)
				_ = rsp.mgr.UpdateValidationStatus(ctx, st.ChannelID(), datatransfer.ValidationResult{Accepted: true, DataLimit: l, RequiresFinalization: sc.Finalize})
			}()
		case datatransfer.BeginFinalizing:
			go func() {
				time.Sleep(40 * time.Millisecond)
				_ = rsp.mgr.UpdateValidationStatus(ctx, st.ChannelID(), datatransfer.ValidationResult{Accepted: true, DataLimit: 0, RequiresFinalization: false})
			}()
		case datatransfer.Accept:
			if sc.ForcePause {
				go func() {
					time.Sleep(40 * time.Millisecond)
					_ = rsp.mgr.ResumeDataTransferChannel(ctx, st.ChannelID())
				}()
			}
		}
	})
	pauser := func(node *e2eNode, after int) {
		if after == 0 {
			return
		}
		node.mgr.SubscribeToEvents(func(evt datatransfer.Event, st datatransfer.ChannelState) {
			if evt.Code != datatransfer.DataReceived && evt.Code != datatransfer.DataQueued {
				return
			}
			appMu.Lock()
			dataEvents[node]++
			hit := dataEvents[node] == after
			appMu.Unlock()
			if hit {
				go func() {
					if node.mgr.PauseDataTransferChannel(ctx, st.ChannelID()) == nil {
						time.Sleep(50 * time.Millisecond)
						_ = node.mgr.ResumeDataTransferChannel(ctx, st.ChannelID())
					}
				}()
			}
		})
	}
	pauser(ini, sc.PauseInit)
	pauser(rsp, sc.PauseResp)
	v := datatransfer.TypedVoucher{Type: "T1", Voucher: basicnode.NewString("voucher")}
	var chid datatransfer.ChannelID
	if sc.Pull {
		chid, err = ini.mgr.OpenPullDataChannel(ctx, h2.ID(), v, root, sel)
	} else {
		chid, err = ini.mgr.OpenPushDataChannel(ctx, h2.ID(), v, root, sel)
	}
	if err != nil {
		fail(id, "e2e-open-failed", "opening the channel failed: "+err.Error(), label, nil, nil)
		return false
	}
	statusOf := func(n *e2eNode) datatransfer.Status {
		st, err := n.mgr.ChannelState(ctx, chid)
		if err != nil {
			return datatransfer.ChannelNotFoundError
		}
		return st.Status()
	}
	deadline := time.Now().Add(6 * time.Second)
	for time.Now().Before(deadline) {
		s := statusOf(ini)
		if s == datatransfer.Completed || s == datatransfer.Failed || s == datatransfer.Cancelled {
			break
		}
		time.Sleep(2 * time.Millisecond)
	}
	final := statusOf(ini)
	res.hist("initiator-final:" + statusName(final))
	if final != datatransfer.Completed {
		// not a violation of C01 (which speaks about channels that DO complete); kept visible in the evidence
		msg := ""
		if st, err := ini.mgr.ChannelState(ctx, chid); err == nil {
			msg = st.Message()
		}
		rmsg := ""
		if st, err := rsp.mgr.ChannelState(ctx, chid); err == nil {
			rmsg = statusName(st.Status()) + ":" + st.Message()
		}
		res.hist("not-completed:" + statusName(final) + " [" + msg + "] responder=" + rmsg + " :: " + label)
		if final == datatransfer.Failed && strings.Contains(msg, "pause channel") {
			res.fail(monitorFailure{Property: "C11", CaseID: id, Signature: "stay-paused-fails-channel", What: "the counterparty resumed while the local side was paused and the channel failed with the 'pause channel' signal instead of staying paused", Input: label, Observed: msg})
		}
		return false
	}
	// ---- the initiator reports Completed: everything below is owed ----
	rdeadline := time.Now().Add(5 * time.Second)
	for time.Now().Before(rdeadline) && statusOf(rsp) != datatransfer.Completed {
		time.Sleep(2 * time.Millisecond)
	}
	if s := statusOf(rsp); s != datatransfer.Completed {
		fail(id, "responder-not-completed", "the initiator reports Completed but the responder's channel did not settle in Completed", label, statusName(s), "Completed")
	}
	// the receiver holds every selected block, byte-identical
	rdag := receiver.dag
	if sc.OwnStore {
		rdag = merkledag.NewDAGService(blockservice.New(ownBs, offline.Exchange(ownBs)))
	}
	got, err := readFile(ctx, rdag, root)
	if err != nil {
		fail(id, "receiver-missing-blocks", "the initiator reports Completed but the receiver's store does not hold the whole DAG: "+err.Error(), label, nil, nil)
	} else if !bytes.Equal(got, data) {
		fail(id, "receiver-payload-differs", "the payload read back from the receiver differs from what was sent", label, len(got), len(data))
	}
	if ru, rn, err := uniqueSize(ctx, rdag, root); err != nil || ru != uniq || rn != nblocks {
		fail(id, "receiver-missing-blocks", "the receiver's store does not hold every block of the DAG", label, fmt.Sprintf("%d bytes in %d blocks (%v)", ru, rn, err), fmt.Sprintf("%d bytes in %d blocks", uniq, nblocks))
	}
	// totals
	sst, _ := sender.mgr.ChannelState(ctx, chid)
	rst, _ := receiver.mgr.ChannelState(ctx, chid)
	if sst != nil && rst != nil {
		if rst.Received() != uniq || sst.Queued() != uniq || sst.Sent() != uniq {
			fail(id, "totals-differ", "Received / Queued / Sent are not all the unique payload size", label,
				fmt.Sprintf("received=%d queued=%d sent=%d", rst.Received(), sst.Queued(), sst.Sent()), uniq)
		}
	}
	return true
}
