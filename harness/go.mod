module verifharness

go 1.24.0

require (
	github.com/filecoin-project/go-data-transfer/v2 v2.0.0
	github.com/ipfs/go-cid v0.5.0
	github.com/ipfs/go-datastore v0.9.0
	github.com/ipfs/go-graphsync v0.18.0
	github.com/ipfs/go-log/v2 v2.8.2
	github.com/ipld/go-ipld-prime v0.21.0
	github.com/libp2p/go-libp2p v0.43.0
	github.com/multiformats/go-multihash v0.2.3
)

require (
	github.com/bep/debounce v1.2.0 // indirect
	github.com/davecgh/go-spew v1.1.1 // indirect
	github.com/decred/dcrd/dcrec/secp256k1/v4 v4.4.0 // indirect
	github.com/filecoin-project/go-cbor-util v0.0.0-20191219014500-08c40a1e63a2 // indirect
	github.com/filecoin-project/go-ds-versioning v0.1.2 // indirect
	github.com/filecoin-project/go-statemachine v1.0.2-0.20220322104818-27f8fbb86dfd // indirect
	github.com/filecoin-project/go-statestore v0.2.0 // indirect
	github.com/go-logr/logr v1.4.3 // indirect
	github.com/go-logr/stdr v1.2.2 // indirect
	github.com/gogo/protobuf v1.3.2 // indirect
	github.com/google/uuid v1.6.0 // indirect
	github.com/hannahhoward/go-pubsub v0.0.0-20200423002714-8d62886cc36e // indirect
	github.com/ipfs/boxo v0.35.0 // indirect
	github.com/ipfs/go-block-format v0.2.3 // indirect
	github.com/ipfs/go-ipld-cbor v0.2.1 // indirect
	github.com/ipfs/go-ipld-format v0.6.3 // indirect
	github.com/ipfs/go-log v1.0.5 // indirect
	github.com/ipfs/go-test v0.2.3 // indirect
	github.com/jpillora/backoff v1.0.0 // indirect
	github.com/klauspost/cpuid/v2 v2.3.0 // indirect
	github.com/libp2p/go-buffer-pool v0.1.0 // indirect
	github.com/mattn/go-isatty v0.0.20 // indirect
	github.com/mr-tron/base58 v1.2.0 // indirect
	github.com/multiformats/go-base32 v0.1.0 // indirect
	github.com/multiformats/go-base36 v0.2.0 // indirect
	github.com/multiformats/go-multiaddr v0.16.1 // indirect
	github.com/multiformats/go-multibase v0.2.0 // indirect
	github.com/multiformats/go-multicodec v0.9.2 // indirect
	github.com/multiformats/go-multistream v0.6.1 // indirect
	github.com/multiformats/go-varint v0.0.7 // indirect
	github.com/opentracing/opentracing-go v1.2.0 // indirect
	github.com/pmezard/go-difflib v1.0.0 // indirect
	github.com/polydawn/refmt v0.89.0 // indirect
	github.com/spaolacci/murmur3 v1.1.0 // indirect
	github.com/stretchr/testify v1.11.1 // indirect
	github.com/whyrusleeping/cbor-gen v0.3.1 // indirect
	go.opentelemetry.io/auto/sdk v1.1.0 // indirect
	go.opentelemetry.io/otel v1.38.0 // indirect
	go.opentelemetry.io/otel/metric v1.38.0 // indirect
	go.opentelemetry.io/otel/sdk v1.38.0 // indirect
	go.opentelemetry.io/otel/trace v1.38.0 // indirect
	go.uber.org/atomic v1.11.0 // indirect
	go.uber.org/multierr v1.11.0 // indirect
	go.uber.org/zap v1.27.0 // indirect
	golang.org/x/crypto v0.45.0 // indirect
	golang.org/x/exp v0.0.0-20251009144603-d2f985daa21b // indirect
	golang.org/x/sync v0.18.0 // indirect
	golang.org/x/sys v0.38.0 // indirect
	golang.org/x/xerrors v0.0.0-20240903120638-7835f813f4da // indirect
	google.golang.org/protobuf v1.36.9 // indirect
	gopkg.in/yaml.v3 v3.0.1 // indirect
	lukechampine.com/blake3 v1.4.1 // indirect
)

replace github.com/filecoin-project/go-data-transfer/v2 => /repo
