package main

import (
	"context"
	"errors"
	"fmt"
	"path/filepath"
	"sort"
	"strings"
	"sync"
	"time"

	"github.com/libp2p/go-libp2p/core/peer"

	datatransfer "github.com/filecoin-project/go-data-transfer/v2"
	"github.com/filecoin-project/go-data-transfer/v2/channelmonitor"
	"github.com/filecoin-project/go-data-transfer/v2/testutil"
)

// ---------- H5: the real channelmonitor over a recording, gated monitorAPI double ----------

type monAPI struct {
	mu        sync.Mutex
	subs      map[int]datatransfer.Subscriber
	nextSub   int
	inflight  int    // ConnectTo / Restart calls currently blocked
	blocked   int    // 0 none, 1 ConnectTo, 2 Restart
	overlap   string // non-empty once two calls overlapped
	connects  int
	restarts  int
	closes    int
	completes int
	draining  bool
	connCh    chan error
	restCh    chan error
	wrongPeer bool
	wrongChid bool
	chid      datatransfer.ChannelID
}

func newMonAPI(chid datatransfer.ChannelID) *monAPI {
	return &monAPI{subs: map[int]datatransfer.Subscriber{}, connCh: make(chan error), restCh: make(chan error), chid: chid}
}

func (a *monAPI) SubscribeToEvents(s datatransfer.Subscriber) datatransfer.Unsubscribe {
	a.mu.Lock()
	id := a.nextSub
	a.nextSub++
	a.subs[id] = s
	a.mu.Unlock()
	return func() {
		a.mu.Lock()
		delete(a.subs, id)
		a.mu.Unlock()
	}
}

func (a *monAPI) nsubs() int {
	a.mu.Lock()
	defer a.mu.Unlock()
	return len(a.subs)
}

func (a *monAPI) deliver(code datatransfer.EventCode, st datatransfer.ChannelState) {
	a.mu.Lock()
	var l []datatransfer.Subscriber
	for i := 0; i < a.nextSub; i++ {
		if s, ok := a.subs[i]; ok {
			l = append(l, s)
		}
	}
	a.mu.Unlock()
	for _, s := range l {
		s(datatransfer.Event{Code: code, Timestamp: time.Now()}, st)
	}
}

func (a *monAPI) enter(kind int) bool {
	a.mu.Lock()
	defer a.mu.Unlock()
	if a.inflight > 0 && a.overlap == "" {
		a.overlap = fmt.Sprintf("call %d entered while call %d was in flight", kind, a.blocked)
	}
	a.inflight++
	a.blocked = kind
	if kind == 1 {
		a.connects++
	} else {
		a.restarts++
	}
	return a.draining
}

func (a *monAPI) leave() {
	a.mu.Lock()
	a.inflight--
	a.blocked = 0
	a.mu.Unlock()
}

func (a *monAPI) ConnectTo(ctx context.Context, p peer.ID) error {
	if p != a.chid.OtherParty(a.PeerID()) {
		a.mu.Lock()
		a.wrongPeer = true
		a.mu.Unlock()
	}
	if a.enter(1) {
		a.leave()
		return errors.New("draining")
	}
	err := <-a.connCh
	a.leave()
	return err
}

func (a *monAPI) RestartDataTransferChannel(ctx context.Context, chid datatransfer.ChannelID) error {
	if chid != a.chid {
		a.mu.Lock()
		a.wrongChid = true
		a.mu.Unlock()
	}
	if a.enter(2) {
		a.leave()
		return errors.New("draining")
	}
	err := <-a.restCh
	a.leave()
	return err
}

func (a *monAPI) CloseDataTransferChannelWithError(ctx context.Context, chid datatransfer.ChannelID, cherr error) error {
	a.mu.Lock()
	if chid != a.chid {
		a.wrongChid = true
	}
	a.closes++
	a.mu.Unlock()
	return nil
}

func (a *monAPI) PeerID() peer.ID { return a.chid.Initiator }

type mObs struct {
	Shut, Restarting, Queued bool
	Consec                   int
	Blocked                  int
	Connects, Restarts       int
	Closes, Completes        int
	Tracked                  bool
}

func (o mObs) coq() string {
	return fmt.Sprintf("mkMObs %s %s %s %s %s %s %s %s %s %s", coqBool(o.Shut), coqBool(o.Restarting), coqBool(o.Queued), coqN(uint64(o.Consec)),
		coqN(uint64(o.Blocked)), coqN(uint64(o.Connects)), coqN(uint64(o.Restarts)), coqN(uint64(o.Closes)), coqN(uint64(o.Completes)), coqBool(o.Tracked))
}

type mCfg struct {
	Max      int
	Accept   int // 0 off, 1 short, 2 long
	Complete int // 0 off, 1 short, 2 long
	Backoff  int // 0 none, 1 short, 2 long
	Debounce time.Duration
}

const (
	monShortTimer = 300 * time.Millisecond // accept timeout when "short"
	monShortCompl = 450 * time.Millisecond // complete timeout when "short" (always fires after the accept timer step is over)
	monMargin     = 60 * time.Millisecond  // a step must start at least this long before a pending timer fires
	monLong       = time.Hour
	monWait       = 3 * time.Second
)

func durOf(mode int, short time.Duration) time.Duration {
	switch mode {
	case 1:
		return short
	case 2:
		return monLong
	}
	return 0
}

type monRig struct {
	api         *monAPI
	mon         *channelmonitor.Monitor
	mc          *channelmonitor.VerifMonitoredChannel
	cfg         mCfg
	chid        datatransfer.ChannelID
	other       datatransfer.ChannelID
	t0          time.Time
	finish      []time.Time
	accept      bool // Accept delivered
	acceptFired bool // the accept timer step has been taken
	backoff     bool // the loop waits in a long back-off
	r           *rng
}

func newMonRig(c mCfg, r *rng) *monRig {
	chid := datatransfer.ChannelID{Initiator: peerOf(1), Responder: peerOf(2), ID: 7}
	rig := &monRig{api: newMonAPI(chid), cfg: c, chid: chid, r: r,
		other: datatransfer.ChannelID{Initiator: peerOf(1), Responder: peerOf(2), ID: 8}}
	cfg := &channelmonitor.Config{
		AcceptTimeout:          durOf(c.Accept, monShortTimer),
		CompleteTimeout:        durOf(c.Complete, monShortCompl),
		RestartBackoff:         durOf(c.Backoff, 4*time.Millisecond),
		RestartDebounce:        c.Debounce,
		MaxConsecutiveRestarts: uint32(c.Max),
		OnRestartComplete: func(id datatransfer.ChannelID) {
			rig.api.mu.Lock()
			rig.api.completes++
			rig.api.mu.Unlock()
		},
	}
	rig.mon = channelmonitor.NewMonitor(rig.api, cfg)
	rig.t0 = time.Now()
	if r.chance(50) {
		rig.mc = rig.mon.AddPushChannel(chid)
	} else {
		rig.mc = rig.mon.AddPullChannel(chid)
	}
	return rig
}

func (g *monRig) observe() mObs {
	st := g.mc.VerifState()
	tr := g.mon.VerifTracked(g.mc)
	a := g.api
	a.mu.Lock()
	defer a.mu.Unlock()
	return mObs{Shut: st.Shutdown, Restarting: st.Restarting, Queued: st.RestartQueued, Consec: st.ConsecutiveRestarts,
		Blocked: a.blocked, Connects: a.connects, Restarts: a.restarts, Closes: a.closes, Completes: a.completes, Tracked: tr}
}

func (g *monRig) waitFor(cond func(o mObs) bool) mObs {
	deadline := time.Now().Add(monWait)
	for {
		o := g.observe()
		if cond(o) {
			// a short grace: anything the code does beyond what was awaited shows up in the observation
			time.Sleep(1500 * time.Microsecond)
			return g.observe()
		}
		if time.Now().After(deadline) {
			return o
		}
		time.Sleep(200 * time.Microsecond)
	}
}

func (g *monRig) state(complete bool, chid datatransfer.ChannelID) datatransfer.ChannelState {
	return testutil.NewMockChannelState(testutil.MockChannelStateParams{ChannelID: chid, Complete: complete, Self: g.chid.Initiator})
}

// the loop moves on after a completed attempt (or a finished back-off): queued restart or done
func (g *monRig) afterSuccess(pre mObs) func(o mObs) bool {
	if pre.Queued {
		return g.nextAttempt(pre)
	}
	return func(o mObs) bool { return o.Completes == pre.Completes+1 && !o.Restarting }
}

// the loop starts another attempt: either a new ConnectTo, or the limit is exceeded
func (g *monRig) nextAttempt(pre mObs) func(o mObs) bool {
	return func(o mObs) bool {
		if o.Blocked == 1 && o.Connects == pre.Connects+1 {
			return true
		}
		if o.Consec > g.cfg.Max && o.Blocked == 0 {
			return pre.Shut || (o.Closes == pre.Closes+1 && o.Shut && !o.Tracked)
		}
		return false
	}
}

func shutDone(pre mObs) func(o mObs) bool {
	return func(o mObs) bool { return o.Shut && !o.Tracked }
}

func and(a, b func(o mObs) bool) func(o mObs) bool {
	return func(o mObs) bool { return a(o) && b(o) }
}

type mStep struct {
	Kind string // error data accept finish ending connret restret accepttimer completetimer
	Ok   bool
}

func (s mStep) String() string {
	if s.Kind == "connret" || s.Kind == "restret" {
		return fmt.Sprintf("%s(%v)", s.Kind, s.Ok)
	}
	return s.Kind
}

func (s mStep) coq() string {
	switch s.Kind {
	case "error":
		return "HError"
	case "data":
		return "HData"
	case "accept":
		return "HAccept"
	case "finish":
		return "HFinish"
	case "ending":
		return "HEnding"
	case "other":
		return "HOther"
	case "connret":
		return "HConnectRet " + coqBool(s.Ok)
	case "restret":
		return "HRestartRet " + coqBool(s.Ok)
	case "accepttimer":
		return "HAcceptTimer"
	case "completetimer":
		return "HCompleteTimer"
	}
	panic("step " + s.Kind)
}

// enabled reports whether the harness can realise the step deterministically in the observed state
func (g *monRig) enabled(s mStep, o mObs) bool {
	switch s.Kind {
	case "error":
		return o.Shut || !(o.Restarting && o.Queued)
	case "connret":
		return o.Blocked == 1
	case "restret":
		return o.Blocked == 2
	}
	return true
}

func (g *monRig) exec(s mStep) mObs {
	pre := g.observe()
	// noise: events of another channel are ignored
	if g.r.chance(25) {
		codes := []datatransfer.EventCode{datatransfer.SendDataError, datatransfer.Accept, datatransfer.DataSent, datatransfer.FinishTransfer, datatransfer.Complete}
		// the other channel may share the transfer id (ids are chosen by each channel's initiator) or one of the peers
		others := []datatransfer.ChannelID{g.other,
			{Initiator: peerOf(3), Responder: peerOf(1), ID: g.chid.ID},
			{Initiator: peerOf(1), Responder: peerOf(3), ID: g.chid.ID},
			{Initiator: peerOf(2), Responder: peerOf(1), ID: g.chid.ID}}
		g.api.deliver(codes[g.r.intn(len(codes))], g.state(g.r.chance(30), others[g.r.intn(len(others))]))
	}
	always := func(o mObs) bool { return true }
	cond := always
	// when the monitor shuts down while the loop sits in a long back-off the loop moves on
	backoffEnds := func(c func(o mObs) bool) func(o mObs) bool {
		if g.backoff {
			g.backoff = false
			return and(c, g.afterSuccess(pre))
		}
		return c
	}
	switch s.Kind {
	case "error":
		code := datatransfer.SendDataError
		if g.r.chance(50) {
			code = datatransfer.ReceiveDataError
		}
		g.api.deliver(code, g.state(false, g.chid))
		if !pre.Shut {
			if !pre.Restarting {
				cond = g.nextAttempt(pre)
			} else {
				cond = func(o mObs) bool { return o.Queued }
			}
		}
	case "data":
		code := datatransfer.DataSent
		if g.r.chance(50) {
			code = datatransfer.DataReceived
		}
		g.api.deliver(code, g.state(false, g.chid))
	case "other":
		// announcements that are neither transfer progress, nor errors, nor endings: queued data, vouchers,
		// pauses, restarts, ... leave the monitor's bookkeeping alone
		codes := []datatransfer.EventCode{datatransfer.DataQueued, datatransfer.DataQueuedProgress, datatransfer.DataSentProgress, datatransfer.DataReceivedProgress,
			datatransfer.NewVoucher, datatransfer.NewVoucherResult, datatransfer.PauseResponder, datatransfer.ResumeResponder, datatransfer.PauseInitiator,
			datatransfer.ResumeInitiator, datatransfer.Restart, datatransfer.Opened, datatransfer.TransferInitiated, datatransfer.Disconnected, datatransfer.DataLimitExceeded}
		g.api.deliver(codes[g.r.intn(len(codes))], g.state(false, g.chid))
	case "accept":
		g.api.deliver(datatransfer.Accept, g.state(false, g.chid))
		if !pre.Shut {
			g.accept = true
		}
	case "finish":
		g.api.deliver(datatransfer.FinishTransfer, g.state(false, g.chid))
		if !pre.Shut && g.cfg.Complete != 0 {
			g.finish = append(g.finish, time.Now())
		}
	case "ending":
		codes := []datatransfer.EventCode{datatransfer.Complete, datatransfer.CleanupComplete, datatransfer.SendDataError, datatransfer.Accept, datatransfer.FinishTransfer, datatransfer.DataSent, datatransfer.Cancel}
		g.api.deliver(codes[g.r.intn(len(codes))], g.state(true, g.chid))
		if !pre.Shut {
			cond = backoffEnds(shutDone(pre))
		}
	case "connret":
		var err error
		if !s.Ok {
			err = errors.New("connect failed")
		}
		g.api.connCh <- err
		if s.Ok {
			cond = func(o mObs) bool { return o.Blocked == 2 && o.Restarts == pre.Restarts+1 }
		} else {
			cond = g.nextAttempt(pre)
		}
	case "restret":
		var err error
		if !s.Ok {
			err = errors.New("restart failed")
		}
		g.api.restCh <- err
		if !s.Ok {
			cond = g.nextAttempt(pre)
		} else if g.cfg.Backoff == 2 && !pre.Shut {
			g.backoff = true
			cond = func(o mObs) bool { return o.Blocked == 0 }
		} else {
			cond = g.afterSuccess(pre)
		}
	case "accepttimer":
		if g.cfg.Accept == 1 && !g.acceptFired {
			time.Sleep(time.Until(g.t0.Add(monShortTimer + 40*time.Millisecond)))
		}
		g.acceptFired = true
		if g.cfg.Accept == 1 && !g.accept && !pre.Shut {
			cond = backoffEnds(func(o mObs) bool { return o.Closes == pre.Closes+1 && o.Shut && !o.Tracked })
		}
	case "completetimer":
		if len(g.finish) > 0 {
			if g.cfg.Complete == 1 {
				time.Sleep(time.Until(g.finish[0].Add(monShortCompl + 40*time.Millisecond)))
			}
			g.finish = g.finish[1:]
			if g.cfg.Complete == 1 && !pre.Shut {
				cond = backoffEnds(func(o mObs) bool { return o.Closes == pre.Closes+1 && o.Shut && !o.Tracked })
			}
		}
	}
	return g.waitFor(cond)
}

func (g *monRig) timersSafe(o mObs) bool {
	if o.Shut {
		return true
	}
	now := time.Now()
	if g.cfg.Accept == 1 && !g.acceptFired && !g.accept && g.t0.Add(monShortTimer).Sub(now) < monMargin {
		return false
	}
	if g.cfg.Complete == 1 {
		for _, f := range g.finish {
			if f.Add(monShortCompl).Sub(now) < monMargin {
				return false
			}
		}
	}
	return true
}

func (g *monRig) teardown() {
	g.api.mu.Lock()
	g.api.draining = true
	g.api.mu.Unlock()
	g.mc.Shutdown()
	for i := 0; i < 8; i++ {
		select {
		case g.api.connCh <- errors.New("teardown"):
		case g.api.restCh <- errors.New("teardown"):
		case <-time.After(2 * time.Millisecond):
		}
	}
	g.mon.Shutdown()
}

type mCaseOut struct {
	id    int
	cfg   mCfg
	steps []mStep
	obs   []mObs
}

func (c mCaseOut) coq() string {
	var st []string
	for i := range c.steps {
		st = append(st, fmt.Sprintf("(%s, %s)", c.steps[i].coq(), c.obs[i].coq()))
	}
	return fmt.Sprintf("  mkMCase %s %s %s %s %s %s", coqN(uint64(c.id)), coqN(uint64(c.cfg.Max)), coqBool(c.cfg.Accept != 0), coqBool(c.cfg.Complete != 0),
		coqN(uint64(c.cfg.Backoff)), coqList(st))
}

func writeMCases(dir, name string, cases []mCaseOut) {
	const shard = 400
	for i := 0; i*shard < len(cases) || i == 0; i++ {
		lo, hi := i*shard, (i+1)*shard
		if hi > len(cases) {
			hi = len(cases)
		}
		var b strings.Builder
		b.WriteString("From Coq Require Import List NArith ZArith Bool.\nFrom DT Require Import Monitor MonitorCorr.\nImport ListNotations.\n\n")
		b.WriteString("Definition cases : list mcase := [\n")
		for j, c := range cases[lo:hi] {
			b.WriteString(c.coq())
			if j != hi-lo-1 {
				b.WriteString(";\n")
			}
		}
		b.WriteString("\n].\n\nDefinition M := Eval vm_compute in mismatches cases.\nPrint M.\nDefinition MS := Eval vm_compute in mismatch_steps cases.\nPrint MS.\n")
		writeFile(filepath.Join(dir, fmt.Sprintf("cases_%s_%03d.v", name, i)), b.String())
	}
}

// ---------- the suite ----------

type monSuite struct {
	res   *suiteResult
	mu    sync.Mutex
	cases []mCaseOut
	id    int
}

// a plan produces the next step from the observed state (nil: stop)
type monPlan func(g *monRig, i int, o mObs) *mStep

func fixedPlan(steps []mStep) monPlan {
	next := 0
	return func(g *monRig, i int, o mObs) *mStep {
		for next < len(steps) {
			s := steps[next]
			next++
			// only short timers can be made to fire; the label is not emitted for the others
			if (s.Kind == "accepttimer" && g.cfg.Accept != 1) || (s.Kind == "completetimer" && (g.cfg.Complete != 1 || len(g.finish) == 0)) {
				continue
			}
			if !g.enabled(s, o) {
				return nil
			}
			return &s
		}
		return nil
	}
}

func (s *monSuite) runCase(id int, label string, cfg mCfg, seed uint64, plan monPlan) {
	r := newRng(seed)
	g := newMonRig(cfg, r)
	defer g.teardown()
	out := mCaseOut{id: id, cfg: cfg}
	fail := func(sig, what, where string) {
		s.res.fail(monitorFailure{Property: "C14", CaseID: id, Signature: sig, What: what, Input: where})
	}
	desc := fmt.Sprintf("%s cfg{max=%d accept=%d complete=%d backoff=%d debounce=%s}", label, cfg.Max, cfg.Accept, cfg.Complete, cfg.Backoff, cfg.Debounce)
	if g.mc == nil {
		fail("monitor-not-created", "AddPushChannel/AddPullChannel returned nil with monitoring enabled", desc)
		return
	}
	sawEnding := false
	connectsAtData := 0
	discarded := false
	var names []string
	cur := g.observe()
	for i := 0; ; i++ {
		st := plan(g, i, cur)
		if st == nil {
			break
		}
		// real timers: every step must start well before any pending short timer fires, otherwise the
		// timer could fire inside the wrong step; such a case is discarded, never judged
		if !g.timersSafe(cur) {
			discarded = true
			break
		}
		pre := cur
		acceptBefore := g.accept
		nfinish := len(g.finish)
		o := g.exec(*st)
		cur = o
		out.steps = append(out.steps, *st)
		out.obs = append(out.obs, o)
		names = append(names, st.String())
		where := fmt.Sprintf("%s :: %s (step %d)", desc, strings.Join(names, " ; "), i+1)
		s.res.hist("step:" + st.Kind)
		// ----- direct monitors (C14) -----
		g.api.mu.Lock()
		ov, wp, wc := g.api.overlap, g.api.wrongPeer, g.api.wrongChid
		g.api.mu.Unlock()
		if ov != "" {
			fail("restart-overlap", "two reconnect/restart calls were in flight at once: "+ov, where)
		}
		if wp || wc {
			fail("wrong-target", "ConnectTo / Restart / Close addressed another peer or channel", where)
		}
		if o.Closes > 1 {
			fail("closed-twice", fmt.Sprintf("the channel was closed with an error %d times", o.Closes), where)
		}
		if sawEnding && o.Closes > pre.Closes {
			fail("close-after-ending", "the channel was closed after the monitor saw it cleaning up / terminal", where)
		}
		if st.Kind == "ending" && !pre.Shut {
			sawEnding = true
			if !o.Shut || o.Tracked || g.api.nsubs() != 0 {
				fail("ending-not-forgotten", "after an event with a cleaning-up/terminal state the monitor did not unsubscribe and forget the channel", where)
			}
		}
		if st.Kind == "other" && (o.Consec != pre.Consec || o.Connects != pre.Connects || o.Restarts != pre.Restarts || o.Closes != pre.Closes) {
			fail("bookkeeping-moved-by-unrelated-event", "an announcement that is neither transfer progress, an error nor an ending changed the monitor's restart bookkeeping (data progress is data sent or received)", where)
		}
		if st.Kind == "data" && !pre.Shut {
			connectsAtData = o.Connects
			if o.Consec != 0 {
				fail("data-did-not-reset", "a data event did not reset the consecutive restart count", where)
			}
		}
		if o.Connects-connectsAtData > cfg.Max {
			fail("restarts-unbounded", fmt.Sprintf("%d restart attempts without data progress (limit %d)", o.Connects-connectsAtData, cfg.Max), where)
		}
		if o.Closes > pre.Closes {
			timerOK := (st.Kind == "accepttimer" && cfg.Accept == 1 && !acceptBefore) || (st.Kind == "completetimer" && cfg.Complete == 1 && nfinish > 0)
			if !timerOK && !(o.Consec > cfg.Max) {
				fail("unexpected-close", "the channel was closed although no enabled timeout expired and the restart limit was not exceeded", where)
			}
			if pre.Shut {
				fail("close-after-shutdown", "the channel was closed after the monitor had shut down", where)
			}
		}
		if (st.Kind == "error" || st.Kind == "connret" || st.Kind == "restret") && o.Consec > cfg.Max && !pre.Shut && pre.Consec <= cfg.Max && o.Closes != pre.Closes+1 {
			fail("limit-exceeded-not-closed", "the restart limit was exceeded but the channel was not closed with an error", where)
		}
		if st.Kind == "accepttimer" && cfg.Accept == 1 && !acceptBefore && !pre.Shut && o.Closes != pre.Closes+1 {
			fail("accept-timeout-not-closed", "no Accept arrived within the accept timeout but the channel was not closed", where)
		}
		if st.Kind == "accepttimer" && (cfg.Accept != 1 || acceptBefore) && o.Closes != pre.Closes {
			fail("accept-timeout-spurious", "the accept timeout closed the channel although it was disabled or Accept had arrived", where)
		}
		if st.Kind == "completetimer" && cfg.Complete == 1 && nfinish > 0 && !pre.Shut && o.Closes != pre.Closes+1 {
			fail("complete-timeout-not-closed", "no Complete arrived within the complete timeout but the channel was not closed", where)
		}
		if st.Kind == "restret" && st.Ok && pre.Queued && !(cfg.Backoff == 2 && !pre.Shut) {
			// a restart requested during the attempt is performed once afterwards
			if !(o.Connects == pre.Connects+1 || o.Consec > cfg.Max) || o.Queued {
				fail("queued-restart-lost", "a restart requested during an attempt was not performed after it", where)
			}
		}
		if st.Kind == "restret" && st.Ok && !pre.Queued && o.Connects != pre.Connects {
			fail("spurious-restart", "another attempt started although none was requested", where)
		}
		if o.Shut && !pre.Shut && (o.Tracked || g.api.nsubs() != 0) {
			fail("shutdown-not-forgotten", "the monitor shut the channel down but still tracks it / is subscribed", where)
		}
	}
	if discarded {
		s.res.hist("discarded-timing")
		return
	}
	s.res.hist(fmt.Sprintf("len:%02d", len(out.steps)/5*5))
	s.res.hist(fmt.Sprintf("cfg:accept=%d,complete=%d,backoff=%d", cfg.Accept, cfg.Complete, cfg.Backoff))
	if len(out.steps) >= 2 {
		s.res.distinct(desc + strings.Join(names, ";"))
	}
	s.mu.Lock()
	s.cases = append(s.cases, out)
	s.mu.Unlock()
}

func genMonWalk(n int) monPlan {
	return func(g *monRig, i int, o mObs) *mStep {
		if i >= n {
			return nil
		}
		r := g.r
		for tries := 0; tries < 20; tries++ {
			var st mStep
			x := r.intn(100)
			switch {
			case o.Blocked == 1 && x < 45:
				st = mStep{Kind: "connret", Ok: r.chance(60)}
			case o.Blocked == 2 && x < 45:
				st = mStep{Kind: "restret", Ok: r.chance(65)}
			case x < 70:
				st = mStep{Kind: "error"}
			case x < 82:
				st = mStep{Kind: "data"}
			case x < 88:
				st = mStep{Kind: "accept"}
			case x < 94:
				st = mStep{Kind: "finish"}
			case x < 97 && i > 3:
				st = mStep{Kind: "ending"}
			case x >= 97:
				st = mStep{Kind: "other"}
			default:
				continue
			}
			if g.enabled(st, o) {
				return &st
			}
		}
		return nil
	}
}

func runMonitor(dir string, seed uint64, tier string) {
	s := &monSuite{res: newResult("monitor", seed, tier)}
	r := newRng(seed)
	type job struct {
		label string
		cfg   mCfg
		seed  uint64
		plan  monPlan
		slow  bool
	}
	var jobs []job
	add := func(label string, cfg mCfg, plan monPlan, slow bool) {
		jobs = append(jobs, job{label, cfg, r.next(), plan, slow})
	}
	E, D := mStep{Kind: "error"}, mStep{Kind: "data"}
	cOK, cF := mStep{Kind: "connret", Ok: true}, mStep{Kind: "connret"}
	rOK, rF := mStep{Kind: "restret", Ok: true}, mStep{Kind: "restret"}
	end, acc, fin := mStep{Kind: "ending"}, mStep{Kind: "accept"}, mStep{Kind: "finish"}
	aT, cT := mStep{Kind: "accepttimer"}, mStep{Kind: "completetimer"}
	// (a) persistent failures: every pattern of connect/restart failures up to the limit
	for max := 1; max <= 3; max++ {
		for bk := 0; bk <= 2; bk++ {
			for pat := 0; pat < 1<<uint(max+1); pat++ {
				steps := []mStep{E}
				for b := 0; b <= max; b++ {
					if pat>>uint(b)&1 == 0 {
						steps = append(steps, cF)
					} else {
						steps = append(steps, cOK, rF)
					}
				}
				steps = append(steps, E, D, E, end)
				add(fmt.Sprintf("persistent-failure pat=%d", pat), mCfg{Max: max, Backoff: bk, Accept: 2, Complete: 2}, fixedPlan(steps), false)
			}
		}
	}
	// (b) restart queued during an attempt, at each point of the attempt, with each outcome
	for bk := 0; bk <= 2; bk++ {
		for max := 1; max <= 3; max++ {
			for _, at := range []int{1, 2} {
				for _, tail := range [][]mStep{{cOK, rOK}, {cOK, rF, cOK, rOK}, {cF, cOK, rOK}, {cOK, rOK, cOK, rOK, E}, {cOK, rOK, end}, {cOK, end, rOK, cOK}} {
					steps := []mStep{E}
					if at == 2 {
						steps = append(steps, cOK)
						tail = tail[1:]
					}
					steps = append(steps, E)
					steps = append(steps, tail...)
					steps = append(steps, cOK, rOK, D, E, cOK, rOK)
					add(fmt.Sprintf("queued at=%d", at), mCfg{Max: max, Backoff: bk}, fixedPlan(steps), false)
				}
			}
		}
	}
	// (c) data progress resets the count: max attempts, data, max attempts again, ...
	for max := 1; max <= 3; max++ {
		var steps []mStep
		for round := 0; round < 3; round++ {
			for k := 0; k < max; k++ {
				steps = append(steps, E, cOK, rOK)
			}
			steps = append(steps, D)
		}
		for k := 0; k <= max; k++ {
			steps = append(steps, E, cOK, rOK)
		}
		add("data-resets", mCfg{Max: max, Debounce: time.Millisecond}, fixedPlan(steps), false)
		// ... and only data that was sent or received: queued data, vouchers, pauses between the attempts
		// do not, so the bound is reached
		var os []mStep
		for k := 0; k <= max+1; k++ {
			os = append(os, E, cOK, rOK, mStep{Kind: "other"}, mStep{Kind: "other"})
		}
		add("other-events-do-not-reset", mCfg{Max: max, Debounce: time.Millisecond}, fixedPlan(os), false)
	}
	// (d) timers: accept / complete, enabled short, with and without the awaited event, shutdown first
	nTimer := 0
	for _, am := range []int{0, 1, 2} {
		for _, cm := range []int{0, 1, 2} {
			if am != 1 && cm != 1 {
				continue
			}
			for _, pre := range [][]mStep{{}, {acc}, {fin}, {acc, fin}, {fin, fin}, {E, cOK}, {E, cF, fin}, {end}, {fin, end}, {acc, E, cOK, rOK, fin}, {E, E, fin}} {
				for _, post := range [][]mStep{{}, {E, D}, {end, E}} {
					steps := append([]mStep(nil), pre...)
					steps = append(steps, aT)
					for _, p := range pre {
						if p.Kind == "finish" {
							steps = append(steps, cT)
						}
					}
					steps = append(steps, post...)
					steps = append(steps, aT, cT)
					add("timers", mCfg{Max: 2, Accept: am, Complete: cm, Backoff: nTimer % 3}, fixedPlan(steps), true)
					nTimer++
				}
			}
		}
	}
	// (e) generated schedules
	n := 1500
	if tier == "thorough" {
		n = 20000
	}
	for i := 0; i < n; i++ {
		cfg := mCfg{Max: 1 + r.intn(3), Accept: []int{0, 2}[r.intn(2)], Complete: []int{0, 2}[r.intn(2)], Backoff: r.intn(3),
			Debounce: []time.Duration{0, 200 * time.Microsecond, time.Millisecond}[r.intn(3)]}
		add(fmt.Sprintf("walk %d", i), cfg, genMonWalk(6+r.intn(30)), false)
	}
	// run: fast cases on a few workers, timer cases all in parallel (they mostly sleep)
	var wg sync.WaitGroup
	fast := make(chan int, len(jobs))
	slowSem := make(chan struct{}, 96)
	for i, j := range jobs {
		s.res.CaseLabels = append(s.res.CaseLabels, j.label)
		if onlyCase != 0 && onlyCase != i+1 {
			continue
		}
		if !j.slow {
			fast <- i
		}
	}
	close(fast)
	for w := 0; w < 16; w++ {
		wg.Add(1)
		go func() {
			defer wg.Done()
			for i := range fast {
				j := jobs[i]
				s.runCase(i+1, j.label, j.cfg, j.seed, j.plan)
			}
		}()
	}
	wg.Wait()
	for i, j := range jobs {
		if !j.slow || (onlyCase != 0 && onlyCase != i+1) {
			continue
		}
		wg.Add(1)
		slowSem <- struct{}{}
		go func(i int, j job) {
			defer wg.Done()
			defer func() { <-slowSem }()
			s.runCase(i+1, j.label, j.cfg, j.seed, j.plan)
		}(i, j)
	}
	wg.Wait()
	// (f) monitoring disabled: nothing is subscribed, restarted or closed
	{
		chid := datatransfer.ChannelID{Initiator: peerOf(1), Responder: peerOf(2), ID: 9}
		api := newMonAPI(chid)
		m := channelmonitor.NewMonitor(api, nil)
		mc1, mc2 := m.AddPushChannel(chid), m.AddPullChannel(chid)
		for _, code := range []datatransfer.EventCode{datatransfer.SendDataError, datatransfer.ReceiveDataError, datatransfer.FinishTransfer, datatransfer.Complete} {
			api.deliver(code, testutil.NewMockChannelState(testutil.MockChannelStateParams{ChannelID: chid}))
		}
		time.Sleep(5 * time.Millisecond)
		api.mu.Lock()
		if mc1 != nil || mc2 != nil || len(api.subs) != 0 || api.connects+api.restarts+api.closes != 0 {
			s.res.Failures = append(s.res.Failures, monitorFailure{Property: "C14", CaseID: 0, Signature: "disabled-monitor-acts", What: "with monitoring disabled a channel was monitored, restarted or closed", Input: "NewMonitor(api, nil); AddPushChannel; AddPullChannel; error events"})
		}
		api.mu.Unlock()
		m.Shutdown()
		s.res.hist("disabled-monitor-check")
	}
	// stable order for the case files
	sortMCases(s.cases)
	s.res.Cases = len(s.cases)
	s.res.Rule = "every pattern of connect/restart failures up to the limit (max 1-3, 3 back-off modes); a restart queued at each point of an attempt with each outcome; data-reset rounds; accept/complete timers short/long/off x 11 prefixes x 3 suffixes (real timers, cases whose prefix ran late are discarded, never judged); generated schedules of 6-35 macro steps over error/data/accept/finish/ending events and connect/restart results with foreign-channel noise; monitoring disabled; non-trivial = at least 2 steps"
	writeMCases(dir, "monitor", s.cases)
	s.res.write(dir)
}

func sortMCases(c []mCaseOut) {
	sort.Slice(c, func(i, j int) bool { return c[i].id < c[j].id })
}
