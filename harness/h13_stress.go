package main

import (
	"context"
	"fmt"
	"os"
	"path/filepath"
	"runtime"
	"strings"
	"sync"
	"sync/atomic"
	"time"

	"github.com/ipfs/go-graphsync"
	cidlink "github.com/ipld/go-ipld-prime/linking/cid"

	datatransfer "github.com/filecoin-project/go-data-transfer/v2"
	"github.com/filecoin-project/go-data-transfer/v2/channelmonitor"
	"github.com/filecoin-project/go-data-transfer/v2/impl"
	dtgs "github.com/filecoin-project/go-data-transfer/v2/transport/graphsync"
	"github.com/filecoin-project/go-data-transfer/v2/transport/graphsync/extension"
	"github.com/filecoin-project/go-data-transfer/v2/transport/graphsync/testharness"
)

// ---------- stress: the manager used from many goroutines at once (C20) ----------
//
// Built with the race detector (bin/check builds this suite's binary with -race).  Workers open,
// drive, pause, resume, restart and close channels, deliver messages and transport callbacks,
// subscribe and unsubscribe; subscribers call back into the manager from inside the callback; the
// channel monitor is enabled; finally the manager is stopped while transfers are active.  Every
// call runs under a watchdog; the race detector's reports are collected from its log files.

type stressStats struct {
	calls   int64
	slowest int64
}

func runStress(dir string, seed uint64, tier string) {
	res := newResult("stress", seed, tier)
	rounds := 6
	dur := 700 * time.Millisecond
	if tier == "thorough" {
		rounds, dur = 40, 2*time.Second
	}
	fail := func(id int, sig, what, input string) {
		res.fail(monitorFailure{Property: "C20", CaseID: id, Signature: sig, What: what, Input: input})
	}
	for round := 1; round <= rounds; round++ {
		label := fmt.Sprintf("stress round=%d seed=%d", round, seed)
		res.CaseLabels = append(res.CaseLabels, label)
		if onlyCase != 0 && onlyCase != round {
			continue
		}
		r := &nodeRig{res: res, selfTok: 1, self: peerOf(1), ds: newRecDS(), tids: newTidTable(), registered: map[string]bool{}}
		curTids, canonText = r.tids, true
		r.mgrOpts = []impl.DataTransferOption{impl.ChannelRestartConfig(channelmonitor.Config{MaxConsecutiveRestarts: 3, RestartDebounce: time.Millisecond,
			AcceptTimeout: 50 * time.Millisecond, CompleteTimeout: 50 * time.Millisecond})}
		r.boot()
		r.register("T1")
		r.defaultVal = &valSpec{Accepted: true}
		ctx := context.Background()
		var known sync.Map // channel ids seen so far
		var nknown int64
		addChan := func(c datatransfer.ChannelID) {
			if _, loaded := known.LoadOrStore(c, true); !loaded {
				atomic.AddInt64(&nknown, 1)
			}
		}
		pick := func(rg *rng) (datatransfer.ChannelID, bool) {
			var out datatransfer.ChannelID
			n := int(atomic.LoadInt64(&nknown))
			if n == 0 {
				return out, false
			}
			want := rg.intn(n)
			i := 0
			found := false
			known.Range(func(k, _ interface{}) bool {
				if i == want {
					out, found = k.(datatransfer.ChannelID), true
					return false
				}
				i++
				return true
			})
			return out, found
		}
		var st stressStats
		var hung int32
		guard := func(name string, f func()) {
			done := make(chan struct{})
			start := time.Now()
			go func() {
				defer close(done)
				defer func() {
					if p := recover(); p != nil {
						fail(round, "stress-panic:"+name, fmt.Sprintf("%s panicked under concurrent use: %v", name, p), label)
					}
				}()
				f()
			}()
			if why := patientWait(done, 8*time.Second, 50*time.Second); why != "" {
				if atomic.CompareAndSwapInt32(&hung, 0, 1) {
					fail(round, "stress-call-hangs:"+name, name+" did not return within 58s under concurrent use (deadlock?)\n"+why, label)
				}
			} else {
				atomic.AddInt64(&st.calls, 1)
				if d := int64(time.Since(start)); d > atomic.LoadInt64(&st.slowest) {
					atomic.StoreInt64(&st.slowest, d)
				}
			}
		}
		v := datatransfer.TypedVoucher{Type: "T1", Voucher: nodeOf(3)}
		// subscribers that call back into the manager from inside the callback
		reenter := func(kind int) datatransfer.Subscriber {
			return func(evt datatransfer.Event, cs datatransfer.ChannelState) {
				if cs.ChannelID() == r.sentinel {
					return
				}
				addChan(cs.ChannelID())
				switch (int(evt.Code) + kind) % 7 {
				case 0:
					_, _ = r.mgr.ChannelState(ctx, cs.ChannelID())
				case 1:
					_, _ = r.mgr.InProgressChannels(ctx)
				case 2:
					if cs.ChannelID().Initiator == r.self && evt.Code == datatransfer.Accept {
						_ = r.mgr.SendVoucher(ctx, cs.ChannelID(), v)
					}
				case 3:
					if evt.Code == datatransfer.DataQueued {
						_ = r.mgr.PauseDataTransferChannel(ctx, cs.ChannelID())
					}
				case 4:
					if evt.Code == datatransfer.PauseInitiator || evt.Code == datatransfer.PauseResponder {
						_ = r.mgr.ResumeDataTransferChannel(ctx, cs.ChannelID())
					}
				case 5:
					if evt.Code == datatransfer.NewVoucher && cs.ChannelID().Responder == r.self {
						_ = r.mgr.UpdateValidationStatus(ctx, cs.ChannelID(), datatransfer.ValidationResult{Accepted: true})
					}
				default:
					if evt.Code == datatransfer.SendDataError && int(evt.Code+datatransfer.EventCode(kind))%3 == 0 {
						_ = r.mgr.CloseDataTransferChannel(ctx, cs.ChannelID())
					}
				}
			}
		}
		unsub1 := r.mgr.SubscribeToEvents(reenter(0))
		unsub2 := r.mgr.SubscribeToEvents(reenter(3))
		stop := make(chan struct{})
		var wg sync.WaitGroup
		worker := func(w int) {
			defer wg.Done()
			rg := newRng(seed*1000 + uint64(round)*100 + uint64(w))
			for {
				select {
				case <-stop:
					return
				default:
				}
				if atomic.LoadInt32(&hung) != 0 {
					return
				}
				c, have := pick(rg)
				peerTok := 2 + rg.intn(3)
				switch x := rg.intn(100); {
				case x < 10 || !have:
					guard("OpenPushDataChannel", func() {
						if id, err := r.mgr.OpenPushDataChannel(ctx, peerOf(peerTok), v, cidOf(1), nodeOf(2), datatransfer.WithSubscriber(reenter(w))); err == nil {
							addChan(id)
						}
					})
				case x < 18:
					guard("OpenPullDataChannel", func() {
						if id, err := r.mgr.OpenPullDataChannel(ctx, peerOf(peerTok), v, cidOf(1), nodeOf(2)); err == nil {
							addChan(id)
						}
					})
				case x < 26:
					// a remote peer opens a channel towards us
					tid := uint64(1 + rg.intn(50))
					m := r.realMsg(newReq(tid, rg.chance(50)))
					guard("ReceiveRequest(new)", func() { r.receiver.ReceiveRequest(ctx, peerOf(peerTok), m.(datatransfer.Request)) })
					addChan(datatransfer.ChannelID{Initiator: peerOf(peerTok), Responder: r.self, ID: datatransfer.TransferID(tid)})
				case x < 34:
					other := c.Responder
					if c.Responder == r.self {
						other = c.Initiator
					}
					if c.Initiator == r.self {
						t := []uint64{mtNew, mtComplete, mtVoucherResult, mtUpdate, mtCancel, mtRestart}[rg.intn(6)]
						m := r.realMsg(respOf(t, r.tids.tok(uint64(c.ID)), rg.chance(80), rg.chance(20)))
						guard("ReceiveResponse", func() { r.receiver.ReceiveResponse(ctx, other, m.(datatransfer.Response)) })
					} else {
						t := []uint64{mtUpdate, mtVoucher, mtCancel, mtRestart}[rg.intn(4)]
						m := r.realMsg(msgSpec{IsReq: true, Type: t, Tid: r.tids.tok(uint64(c.ID)), Pause: rg.chance(50), VType: "T1", VNode: 4, BaseCid: 1, Selector: 2})
						guard("ReceiveRequest", func() { r.receiver.ReceiveRequest(ctx, other, m.(datatransfer.Request)) })
					}
				case x < 58:
					link := cidlink.Link{Cid: cidOf(1)}
					idx := int64(1 + rg.intn(30))
					switch rg.intn(3) {
					case 0:
						guard("OnDataQueued", func() { _, _ = r.handler.OnDataQueued(c, link, uint64(1+rg.intn(100)), idx, !rg.chance(10)) })
					case 1:
						guard("OnDataSent", func() { _ = r.handler.OnDataSent(c, link, uint64(1+rg.intn(100)), idx, !rg.chance(10)) })
					default:
						guard("OnDataReceived", func() { _ = r.handler.OnDataReceived(c, link, uint64(1+rg.intn(100)), idx, !rg.chance(10)) })
					}
				case x < 62:
					guard("OnChannelOpened", func() { _ = r.handler.OnChannelOpened(c) })
				case x < 65:
					guard("OnChannelCompleted", func() { _ = r.handler.OnChannelCompleted(c, nil) })
				case x < 68:
					guard("OnSendDataError", func() { _ = r.handler.OnSendDataError(c, fmt.Errorf("send error")) })
				case x < 70:
					guard("OnRequestDisconnected", func() { _ = r.handler.OnRequestDisconnected(c, fmt.Errorf("disconnected")) })
				case x < 75:
					guard("SendVoucher", func() { _ = r.mgr.SendVoucher(ctx, c, v) })
				case x < 79:
					guard("SendVoucherResult", func() { _ = r.mgr.SendVoucherResult(ctx, c, v) })
				case x < 83:
					guard("UpdateValidationStatus", func() {
						_ = r.mgr.UpdateValidationStatus(ctx, c, datatransfer.ValidationResult{Accepted: rg.chance(80), DataLimit: uint64(rg.intn(500))})
					})
				case x < 87:
					guard("PauseDataTransferChannel", func() { _ = r.mgr.PauseDataTransferChannel(ctx, c) })
				case x < 91:
					guard("ResumeDataTransferChannel", func() { _ = r.mgr.ResumeDataTransferChannel(ctx, c) })
				case x < 93:
					guard("RestartDataTransferChannel", func() { _ = r.mgr.RestartDataTransferChannel(ctx, c) })
				case x < 95:
					guard("CloseDataTransferChannel", func() { _ = r.mgr.CloseDataTransferChannel(ctx, c) })
				case x < 98:
					guard("ChannelState", func() { _, _ = r.mgr.ChannelState(ctx, c); _, _ = r.mgr.InProgressChannels(ctx) })
				default:
					guard("SubscribeToEvents", func() {
						u := r.mgr.SubscribeToEvents(reenter(w))
						time.Sleep(time.Duration(rg.intn(300)) * time.Microsecond)
						u()
					})
				}
			}
		}
		nworkers := 8
		// first a burst on two hot channels: all workers report blocks of the same transfer at once, every
		// report a new position (the accounting caches and the per-channel state machine under contention)
		if pushID, err := r.mgr.OpenPushDataChannel(ctx, peerOf(2), v, cidOf(1), nodeOf(2)); err == nil {
			if pullID, err := r.mgr.OpenPullDataChannel(ctx, peerOf(3), v, cidOf(1), nodeOf(2)); err == nil {
				addChan(pushID)
				addChan(pullID)
				for _, id := range []datatransfer.ChannelID{pushID, pullID} {
					other := id.Responder
					m := r.realMsg(respOf(mtNew, r.tids.tok(uint64(id.ID)), true, false))
					r.receiver.ReceiveResponse(ctx, other, m.(datatransfer.Response))
					_ = r.handler.OnChannelOpened(id)
				}
				var next int64
				var hot sync.WaitGroup
				for w := 0; w < nworkers; w++ {
					hot.Add(1)
					go func(w int) {
						defer hot.Done()
						link := cidlink.Link{Cid: cidOf(1)}
						for i := 0; i < 40; i++ {
							idx := atomic.AddInt64(&next, 1)
							switch (w + i) % 3 {
							case 0:
								guard("OnDataQueued(hot)", func() { _, _ = r.handler.OnDataQueued(pushID, link, 10, idx, true) })
							case 1:
								guard("OnDataSent(hot)", func() { _ = r.handler.OnDataSent(pushID, link, 10, idx, true) })
							default:
								guard("OnDataReceived(hot)", func() { _ = r.handler.OnDataReceived(pullID, link, 10, idx, true) })
							}
						}
					}(w)
				}
				hot.Wait()
			}
		}
		// then data-limit updates against block reports: two channels a remote peer opened towards us receive
		// blocks from all workers while their limits are raised again and again (the limit cache is shared by
		// all channels of the manager)
		{
			var lim []datatransfer.ChannelID
			for i, tid := range []uint64{61, 62} {
				m := r.realMsg(newReq(tid, false))
				from := peerOf(2 + i)
				r.receiver.ReceiveRequest(ctx, from, m.(datatransfer.Request))
				id := datatransfer.ChannelID{Initiator: from, Responder: r.self, ID: datatransfer.TransferID(tid)}
				if _, err := r.mgr.ChannelState(ctx, id); err == nil {
					lim = append(lim, id)
					addChan(id)
				}
			}
			if len(lim) == 2 {
				link := cidlink.Link{Cid: cidOf(1)}
				for _, id := range lim {
					_ = r.handler.OnDataReceived(id, link, 1, 1, true) // the first block creates the channel's cache entry
				}
				var next int64 = 1
				var hot sync.WaitGroup
				for w := 0; w < nworkers; w++ {
					hot.Add(1)
					go func(w int) {
						defer hot.Done()
						for i := 0; i < 30; i++ {
							id := lim[(w+i)%2]
							if w < 2 {
								limit := uint64(1<<40 + w*1000 + i)
								guard("UpdateValidationStatus(limit)", func() {
									_ = r.mgr.UpdateValidationStatus(ctx, id, datatransfer.ValidationResult{Accepted: true, DataLimit: limit})
								})
							} else {
								idx := atomic.AddInt64(&next, 1)
								guard("OnDataReceived(limit)", func() { _ = r.handler.OnDataReceived(id, link, 10, idx, true) })
							}
						}
					}(w)
				}
				hot.Wait()
			}
		}
		for w := 0; w < nworkers; w++ {
			wg.Add(1)
			go worker(w)
		}
		time.Sleep(dur)
		// stopping the manager while transfers are active returns
		stopDone := make(chan struct{})
		go func() { _ = r.mgr.Stop(ctx); close(stopDone) }()
		stopHung := false
		if why := patientWait(stopDone, 10*time.Second, 50*time.Second); why != "" {
			fail(round, "stress-stop-hangs", "Stop did not return within 60s while transfers were active\n"+why, label)
			stopHung = true
		}
		close(stop)
		if stopHung {
			// the manager is wedged: whatever touches it next (the workers' calls in flight, unsubscribing) may never
			// return either; the finding is recorded, the remaining rounds would only repeat it
			atomic.StoreInt32(&hung, 1)
			res.distinct(label)
			break
		}
		wdone := make(chan struct{})
		go func() { wg.Wait(); close(wdone) }()
		if why := patientWait(wdone, 12*time.Second, 60*time.Second); why != "" {
			if atomic.LoadInt32(&hung) == 0 {
				fail(round, "stress-workers-hang", "workers did not finish after Stop\n"+why, label)
			}
		}
		unsubDone := make(chan struct{})
		go func() { unsub1(); unsub2(); close(unsubDone) }()
		if why := patientWait(unsubDone, 5*time.Second, 25*time.Second); why != "" {
			fail(round, "stress-unsubscribe-hangs", "unsubscribing after Stop did not return\n"+why, label)
			atomic.StoreInt32(&hung, 1)
			res.distinct(label)
			break
		}
		// the manager has stopped and nothing else is running: whatever still arrives (a request of a remote
		// peer for a channel never seen, calls of an application that has not noticed yet) returns -- one
		// after the other, so this part does not depend on the scheduler
		if atomic.LoadInt32(&hung) == 0 {
			late := func(name string, f func()) {
				done := make(chan struct{})
				go func() { defer close(done); defer func() { _ = recover() }(); f() }()
				if why := patientWait(done, 5*time.Second, 20*time.Second); why != "" {
					fail(round, "call-after-stop-hangs:"+name, name+" made after Stop had returned never returned\n"+why, label)
				}
			}
			m := r.realMsg(newReq(uint64(900000+round), false))
			late("ReceiveRequest(new)", func() { r.receiver.ReceiveRequest(ctx, peerOf(7), m.(datatransfer.Request)) })
			late("ChannelState", func() {
				_, _ = r.mgr.ChannelState(ctx, datatransfer.ChannelID{Initiator: peerOf(7), Responder: r.self, ID: datatransfer.TransferID(900000 + round)})
			})
			late("OpenPushDataChannel", func() { _, _ = r.mgr.OpenPushDataChannel(ctx, peerOf(7), v, cidOf(1), nodeOf(2)) })
			if c, ok := pick(newRng(seed + uint64(round))); ok {
				late("CloseDataTransferChannel", func() { _ = r.mgr.CloseDataTransferChannel(ctx, c) })
				late("OnDataQueued", func() { _, _ = r.mgr.(datatransfer.EventsHandler).OnDataQueued(c, cidlink.Link{Cid: cidOf(1)}, 10, 1, true) })
			}
		}
		// ... and leaves no goroutine blocked on library locks
		time.Sleep(100 * time.Millisecond)
		buf := make([]byte, 1<<21)
		first := blockedOnLibraryLock(string(buf[:runtime.Stack(buf, true)]))
		if len(first) > 0 && atomic.LoadInt32(&hung) == 0 {
			// only goroutines that are still blocked a while later count
			time.Sleep(500 * time.Millisecond)
			second := blockedOnLibraryLock(string(buf[:runtime.Stack(buf, true)]))
			var still []string
			for id, fr := range second {
				if _, ok := first[id]; ok {
					still = append(still, fr)
				}
			}
			if len(still) > 0 {
				fail(round, "goroutine-blocked-on-library-lock", "after Stop a goroutine stays blocked on a lock taken by library code:\n"+strings.Join(still, "\n--\n"), label)
			}
		}
		res.hist(fmt.Sprintf("calls:%06d", atomic.LoadInt64(&st.calls)/1000*1000))
		res.Extra[fmt.Sprintf("round%d_calls", round)] = atomic.LoadInt64(&st.calls)
		res.Extra[fmt.Sprintf("round%d_channels", round)] = atomic.LoadInt64(&nknown)
		res.Extra[fmt.Sprintf("round%d_slowest_call_ms", round)] = atomic.LoadInt64(&st.slowest) / 1e6
		res.distinct(label)
	}
	rounds += runGsStress(res, seed, tier, rounds)
	// ---- data races reported by the race detector (GORACE=log_path=<dir>/race) ----
	races := collectRaceReports(dir)
	for _, rep := range races {
		sig := "data-race:" + rep.site
		res.fail(monitorFailure{Property: "C20", CaseID: 0, Signature: sig, What: "the race detector reported a data race involving library code:\n" + rep.text, Input: "stress suite (goroutine interleaving chosen by the scheduler)"})
	}
	res.Extra["race_detector_enabled"] = raceEnabled
	res.Extra["race_reports_in_library"] = len(races)
	res.Extra["race_reports_not_in_library"] = harnessRaces
	res.Cases = rounds
	res.Rule = "(a) rounds of 8 workers for 0.7 s (thorough: 2 s) on one real manager with the channel monitor enabled: opens (with re-entrant per-transfer subscribers), remote opens, responses and requests of every kind, block reports, transport completion / error / disconnect callbacks, vouchers, results, validation updates, pause, resume, restart, close, state queries, subscribe / unsubscribe; two global subscribers that call back into the manager from inside the callback; then Stop while active; (b) rounds of 8 workers on the real Transport + real manager over a fake GraphExchange: concurrent incoming-request / outgoing-block / block-sent / completed / cancelled / updated / network-error callbacks, data-transfer cancels and updates for the same channels over the network double, our own pulls with close / pause / resume / restart, per-channel stores; binary built with -race; the interleavings are whatever the scheduler produces (a test, not a proof)"
	res.write(dir)
}

// goroutines that wait for a mutex taken directly by library code (the first frame that is not
// sync / runtime belongs to go-data-transfer), keyed by goroutine id
func blockedOnLibraryLock(dump string) map[string]string {
	out := map[string]string{}
	for _, g := range strings.Split(dump, "\n\n") {
		lines := strings.Split(g, "\n")
		if len(lines) < 3 || !strings.HasPrefix(lines[0], "goroutine ") {
			continue
		}
		hdr := lines[0]
		if !(strings.Contains(hdr, "[sync.Mutex.Lock") || strings.Contains(hdr, "[sync.RWMutex") || strings.Contains(hdr, "[semacquire")) {
			continue
		}
		for i := 1; i < len(lines); i += 2 {
			fn := strings.TrimSpace(lines[i])
			if strings.HasPrefix(fn, "internal/sync.") || strings.HasPrefix(fn, "sync.") || strings.HasPrefix(fn, "runtime.") || strings.HasPrefix(fn, "internal/runtime") {
				continue
			}
			if strings.HasPrefix(fn, "github.com/filecoin-project/go-data-transfer/v2") && !strings.Contains(fn, "WaitGroup") {
				if len(lines) > 16 {
					lines = lines[:16]
				}
				out[strings.Fields(hdr)[1]] = strings.Join(lines, "\n")
			}
			break
		}
	}
	return out
}

// patientWait waits for done.  A call that is merely slow (the machine may be busy with other checks)
// is not a hang: after `first` the goroutine dump is taken, and only when the call has still not
// returned after a further `more` AND some goroutine that runs library code sits in exactly the same
// frames in a second dump is it reported, with those stacks.  Returns "" when done was closed.
func patientWait(done <-chan struct{}, first, more time.Duration) string {
	select {
	case <-done:
		return ""
	case <-time.After(first):
	}
	dump := func() string {
		buf := make([]byte, 1<<22)
		return string(buf[:runtime.Stack(buf, true)])
	}
	d1 := dump()
	select {
	case <-done:
		return ""
	case <-time.After(more):
	}
	d2 := dump()
	if p := os.Getenv("VERIF_HANG_DUMP"); p != "" {
		_ = os.WriteFile(fmt.Sprintf("%s.%d", p, time.Now().UnixNano()), []byte(d2), 0o644)
	}
	stacks := func(d string) map[string]string {
		out := map[string]string{}
		for _, g := range strings.Split(d, "\n\n") {
			lines := strings.Split(g, "\n")
			if len(lines) < 3 || !strings.HasPrefix(lines[0], "goroutine ") || !strings.Contains(g, "go-data-transfer/v2") {
				continue
			}
			var fr []string
			for i := 1; i < len(lines); i += 2 {
				fr = append(fr, strings.TrimSpace(lines[i]))
			}
			out[strings.Fields(lines[0])[1]] = strings.Join(fr, "\n")
		}
		return out
	}
	a, b := stacks(d1), stacks(d2)
	var stuck []string
	for id, fr := range a {
		if b[id] == fr && !strings.Contains(fr, "patientWait") {
			if len(fr) > 1500 {
				fr = fr[:1500]
			}
			stuck = append(stuck, "goroutine "+id+" (same frames "+more.String()+" apart):\n"+fr)
		}
		if len(stuck) >= 4 {
			break
		}
	}
	if len(stuck) == 0 {
		return "no goroutine running library code was found in the same frames in both dumps"
	}
	return strings.Join(stuck, "\n--\n")
}

func blockedLibraryFrames(dump string) string {
	var out []string
	for _, v := range blockedOnLibraryLock(dump) {
		out = append(out, v)
	}
	return strings.Join(out, "\n--\n")
}

type raceReport struct{ site, text string }

// collectRaceReports reads the race detector's log files.  A report is attributed to the library
// when the code performing one of the two conflicting accesses (the top frame of that access) is
// library code; reports whose accesses are both in the harness are counted separately.
func collectRaceReports(dir string) []raceReport { return collectRaceReportsMode(dir, false) }

// strict: the code performing the access itself (first frame outside the Go runtime / sync / atomic)
// must be library code; used where third-party code with goroutines of its own (real graphsync,
// libp2p) runs underneath the library
func collectRaceReportsMode(dir string, strict bool) []raceReport {
	repoPrefix := "/repo/"
	if v := os.Getenv("VERIF_REPO_PREFIX"); v != "" {
		repoPrefix = v
	}
	files, _ := filepath.Glob(filepath.Join(dir, "race.*"))
	seen := map[string]bool{}
	var out []raceReport
	for _, f := range files {
		b, err := os.ReadFile(f)
		if err != nil {
			continue
		}
		for _, rep := range strings.Split(string(b), "==================") {
			if !strings.Contains(rep, "DATA RACE") {
				continue
			}
			lines := strings.Split(rep, "\n")
			site := ""
			for i, ln := range lines {
				t := strings.TrimSpace(ln)
				if strings.HasPrefix(t, "Read at") || strings.HasPrefix(t, "Write at") || strings.HasPrefix(t, "Previous read at") || strings.HasPrefix(t, "Previous write at") ||
					strings.HasPrefix(t, "Atomic read at") || strings.HasPrefix(t, "Atomic write at") || strings.HasPrefix(t, "Previous atomic") {
					// top frame: function line, then file line; skip runtime / sync frames
					for j := i + 1; j+1 < len(lines) && strings.TrimSpace(lines[j]) != ""; j += 2 {
						file := strings.TrimSpace(lines[j+1])
						std := strings.HasPrefix(file, "/usr/") || strings.Contains(file, "/go/src/") || strings.Contains(file, "/golang.org/toolchain")
						third := strings.Contains(file, "/pkg/mod/") && !strings.Contains(file, "go-data-transfer") && !std
						if std || (third && !strict) {
							continue
						}
						if strings.HasPrefix(file, repoPrefix) && !strings.Contains(file, "_test.go") && !strings.Contains(file, "/testutil/") && !strings.Contains(file, "/testharness/") && site == "" {
							site = strings.SplitN(strings.TrimPrefix(file, repoPrefix), " ", 2)[0]
						}
						break
					}
				}
			}
			if site == "" {
				harnessRaces++
				continue
			}
			if seen[site] {
				continue
			}
			seen[site] = true
			if len(rep) > 3000 {
				rep = rep[:3000]
			}
			out = append(out, raceReport{site, rep})
		}
	}
	return out
}

var harnessRaces int

// ---------- gsstress: the real Transport and the real manager under concurrent graphsync callbacks ----------

func runGsStress(res *suiteResult, seed uint64, tier string, firstID int) int {
	rounds := 4
	dur := 600 * time.Millisecond
	if tier == "thorough" {
		rounds, dur = 30, 2*time.Second
	}
	fail := func(id int, sig, what, input string) {
		res.fail(monitorFailure{Property: "C20", CaseID: id, Signature: sig, What: what, Input: input})
	}
	ctx := context.Background()
	for round := 1; round <= rounds; round++ {
		id := firstID + round
		label := fmt.Sprintf("gsstress round=%d seed=%d", round, seed)
		res.CaseLabels = append(res.CaseLabels, label)
		if onlyCase != 0 && onlyCase != id {
			continue
		}
		g := newGsNodeRig(res)
		// per-channel stores: the events handler re-enters the transport (UseStore) while a hook runs
		_ = g.mgr.RegisterTransportConfigurer("T1", func(chid datatransfer.ChannelID, v datatransfer.TypedVoucher) []datatransfer.TransportOption {
			return []datatransfer.TransportOption{dtgs.UseStore(cidlink.DefaultLinkSystem()), dtgs.MaxLinks(1000)}
		})
		var hung int32
		var calls int64
		guard := func(name string, f func()) {
			done := make(chan struct{})
			go func() {
				defer close(done)
				defer func() {
					if p := recover(); p != nil {
						fail(id, "gsstress-panic:"+name, fmt.Sprintf("%s panicked under concurrent use: %v", name, p), label)
					}
				}()
				f()
			}()
			if why := patientWait(done, 8*time.Second, 50*time.Second); why != "" {
				if atomic.CompareAndSwapInt32(&hung, 0, 1) {
					fail(id, "gsstress-call-hangs:"+name, name+" did not return within 58s under concurrent use (deadlock?)\n"+why, label)
				}
			} else {
				atomic.AddInt64(&calls, 1)
			}
		}
		stop := make(chan struct{})
		var wg sync.WaitGroup
		worker := func(w int) {
			defer wg.Done()
			rg := newRng(seed*977 + uint64(round)*131 + uint64(w))
			next := uint64(w*100000 + 1)
			type inCh struct {
				p   int
				tid uint64
				rid uint64
			}
			var incoming []inCh
			var ours []datatransfer.ChannelID
			for {
				select {
				case <-stop:
					return
				default:
				}
				if atomic.LoadInt32(&hung) != 0 {
					return
				}
				switch x := rg.intn(100); {
				case x < 22 || len(incoming) == 0:
					// a remote peer pulls from us over graphsync
					p := 2 + rg.intn(3)
					tid := uint64(w*1000 + rg.intn(40))
					rid := next
					next++
					m := newReq(tid, true)
					if rg.chance(30) {
						m = restartReq(tid, true)
					}
					g.nr.mu.Lock()
					g.nr.vals = append(g.nr.vals, valSpec{Accepted: true})
					g.nr.mu.Unlock()
					req := testharness.NewFakeRequest(g.tr.rid(rid), extsFor(&m, extension.ExtensionDataTransfer1_1), graphsync.RequestTypeNew)
					guard("IncomingRequestHook", func() { g.tr.gs.IncomingRequestHook(peerOf(p), req, &testharness.FakeIncomingRequestHookActions{}) })
					incoming = append(incoming, inCh{p, tid, rid})
				case x < 40:
					c := incoming[rg.intn(len(incoming))]
					req := testharness.NewFakeRequest(g.tr.rid(c.rid), nil, graphsync.RequestTypeNew)
					blk := testharness.NewFakeBlockData(uint64(1+rg.intn(90)), int64(1+rg.intn(20)), !rg.chance(15))
					switch rg.intn(3) {
					case 0:
						guard("OutgoingBlockHook", func() { g.tr.gs.OutgoingBlockHook(peerOf(c.p), req, blk, &testharness.FakeOutgoingBlockHookActions{}) })
					case 1:
						guard("BlockSentListener", func() { g.tr.gs.BlockSentListener(peerOf(c.p), req, blk) })
					default:
						guard("IncomingRequestProcessingListener", func() { g.tr.gs.IncomingRequestProcessingListener(peerOf(c.p), req, 0) })
					}
				case x < 48:
					// the remote cancels / updates over the data-transfer protocol while hooks run
					c := incoming[rg.intn(len(incoming))]
					t := []uint64{mtCancel, mtUpdate, mtVoucher}[rg.intn(3)]
					m := realOf(msgSpec{IsReq: true, Type: t, Tid: c.tid, Pause: rg.chance(50), VType: "T1", VNode: 4})
					guard("ReceiveRequest", func() { g.nr.receiver.ReceiveRequest(ctx, peerOf(c.p), m.(datatransfer.Request)) })
				case x < 53:
					c := incoming[rg.intn(len(incoming))]
					req := testharness.NewFakeRequest(g.tr.rid(c.rid), nil, graphsync.RequestTypeNew)
					st := []graphsync.ResponseStatusCode{graphsync.RequestCompletedFull, graphsync.RequestCancelled, graphsync.RequestFailedUnknown}[rg.intn(3)]
					guard("CompletedResponseListener", func() { g.tr.gs.CompletedResponseListener(peerOf(c.p), req, st) })
				case x < 57:
					c := incoming[rg.intn(len(incoming))]
					req := testharness.NewFakeRequest(g.tr.rid(c.rid), nil, graphsync.RequestTypeNew)
					guard("RequestorCancelledListener", func() { g.tr.gs.RequestorCancelledListener(peerOf(c.p), req) })
				case x < 62:
					c := incoming[rg.intn(len(incoming))]
					um := msgSpec{IsReq: true, Type: mtUpdate, Tid: c.tid, Pause: rg.chance(50)}
					req := testharness.NewFakeRequest(g.tr.rid(c.rid), nil, graphsync.RequestTypeNew)
					upd := testharness.NewFakeRequest(g.tr.rid(c.rid), extsFor(&um, extension.ExtensionDataTransfer1_1), graphsync.RequestTypeUpdate)
					guard("RequestUpdatedHook", func() { g.tr.gs.RequestUpdatedHook(peerOf(c.p), req, upd, &testharness.FakeRequestUpdatedActions{}) })
				case x < 72:
					guard("OpenPullDataChannel", func() {
						if c, err := g.mgr.OpenPullDataChannel(ctx, peerOf(2+rg.intn(3)), datatransfer.TypedVoucher{Type: "T1", Voucher: nodeOf(3)}, cidOf(1), nodeOf(2)); err == nil {
							ours = append(ours, c)
						}
					})
				case x < 80 && len(ours) > 0:
					c := ours[rg.intn(len(ours))]
					switch rg.intn(4) {
					case 0:
						guard("CloseDataTransferChannel", func() { _ = g.mgr.CloseDataTransferChannel(ctx, c) })
					case 1:
						guard("PauseDataTransferChannel", func() { _ = g.mgr.PauseDataTransferChannel(ctx, c) })
					case 2:
						guard("ResumeDataTransferChannel", func() { _ = g.mgr.ResumeDataTransferChannel(ctx, c) })
					default:
						guard("RestartDataTransferChannel", func() { _ = g.mgr.RestartDataTransferChannel(ctx, c) })
					}
				case x < 88:
					c := incoming[rg.intn(len(incoming))]
					k := datatransfer.ChannelID{Initiator: peerOf(c.p), Responder: peerOf(1), ID: datatransfer.TransferID(c.tid)}
					switch rg.intn(3) {
					case 0:
						guard("CloseDataTransferChannel", func() { _ = g.mgr.CloseDataTransferChannel(ctx, k) })
					case 1:
						guard("PauseDataTransferChannel", func() { _ = g.mgr.PauseDataTransferChannel(ctx, k) })
					default:
						guard("ResumeDataTransferChannel", func() { _ = g.mgr.ResumeDataTransferChannel(ctx, k) })
					}
				case x < 93:
					guard("NetworkErrorListener", func() {
						g.tr.gs.NetworkErrorListener(peerOf(2+rg.intn(3)), testharness.NewFakeRequest(g.tr.rid(next+5000), nil, graphsync.RequestTypeNew), fmt.Errorf("net error"))
					})
				default:
					guard("ReceiverNetworkErrorListener", func() { g.tr.gs.ReceiverNetworkErrorListener(peerOf(2+rg.intn(3)), fmt.Errorf("net error")) })
				}
			}
		}
		for w := 1; w <= 8; w++ {
			wg.Add(1)
			go worker(w)
		}
		time.Sleep(dur)
		// the fake GraphExchange forgets its hooks when the transport shuts down, so the callback
		// workers are stopped first; the transfers they started stay active for Stop
		close(stop)
		wdone := make(chan struct{})
		go func() { wg.Wait(); close(wdone) }()
		if why := patientWait(wdone, 12*time.Second, 60*time.Second); why != "" {
			if atomic.LoadInt32(&hung) == 0 {
				fail(id, "gsstress-workers-hang", "workers did not finish\n"+why, label)
			}
		}
		stopDone := make(chan struct{})
		go func() { _ = g.mgr.Stop(ctx); close(stopDone) }()
		if why := patientWait(stopDone, 10*time.Second, 50*time.Second); why != "" {
			if atomic.LoadInt32(&hung) == 0 {
				fail(id, "gsstress-stop-hangs", "Stop did not return within 60s while transfers were active\n"+why, label)
			}
		}
		res.Extra[fmt.Sprintf("gsround%d_calls", round)] = atomic.LoadInt64(&calls)
		res.distinct(label)
	}
	return rounds
}
