package main

import (
	"context"
	"fmt"
	"strings"
	"time"

	"github.com/ipfs/go-graphsync"

	datatransfer "github.com/filecoin-project/go-data-transfer/v2"
	"github.com/filecoin-project/go-data-transfer/v2/impl"
	dtgs "github.com/filecoin-project/go-data-transfer/v2/transport/graphsync"
	"github.com/filecoin-project/go-data-transfer/v2/transport/graphsync/testharness"
)

// ---------- gsnode: the real manager behind the real graphsync Transport (C20 / C16, integrated) ----------
//
// In the transport suite the events handler is a scripted double, in the node suites the transport
// is.  Here the real manager is the transport's events handler, over a fake GraphExchange and the
// node rig's network double: graphsync callbacks carrying EVERY kind of data-transfer message are
// delivered in every channel situation, and every callback must return (the handler re-enters the
// transport: CleanupChannel, CloseChannel, PauseChannel, ... while the transport holds its locks).

type gsNodeRig struct {
	tr  *trRig
	nr  *nodeRig
	mgr datatransfer.Manager
}

func newGsNodeRig(res *suiteResult) *gsNodeRig {
	t := &trRig{res: res, self: peerOf(1), selfTok: 1, ridTok: map[graphsync.RequestID]uint64{}, ridReal: map[uint64]graphsync.RequestID{}, nextOut: 100, out: map[uint64]*outReq{}}
	t.gs = &gsDouble{FakeGraphSync: testharness.NewFakeGraphSync(), r: t}
	t.tr = dtgs.NewTransport(t.self, t.gs)
	n := &nodeRig{res: res, selfTok: 1, self: peerOf(1), ds: newRecDS(), tids: newTidTable(), registered: map[string]bool{}}
	curTids, canonText = n.tids, true
	m, err := impl.NewDataTransfer(n.ds, &netDouble{n}, t.tr)
	if err != nil {
		panic(err)
	}
	n.mgr = m
	ready := make(chan error, 1)
	m.OnReady(func(e error) { ready <- e })
	if err := m.Start(context.Background()); err != nil {
		panic(err)
	}
	<-ready
	n.ch = impl.VerifChannelsOf(m)
	n.register("T1")
	return &gsNodeRig{tr: t, nr: n, mgr: m}
}

func runGsNode(dir string, seed uint64, tier string) {
	res := newResult("gsnode", seed, tier)
	type msgCase struct {
		name string
		m    msgSpec
	}
	tid := uint64(5)
	reqs := []msgCase{
		{"new-pull-request", newReq(tid, true)}, {"new-push-request", newReq(tid, false)},
		{"restart-request", restartReq(tid, true)}, {"cancel-request", reqOf(mtCancel, tid)},
		{"pause-request", msgSpec{IsReq: true, Type: mtUpdate, Tid: tid, Pause: true}}, {"resume-request", reqOf(mtUpdate, tid)},
		{"voucher-request", msgSpec{IsReq: true, Type: mtVoucher, Tid: tid, VType: "T1", VNode: 4}},
		{"restart-existing-request", msgSpec{IsReq: true, Type: mtRestartExisting, Restart: chidTok{2, 1, tid}}},
	}
	resps := []msgCase{
		{"accept-response", respOf(mtNew, tid, true, false)}, {"reject-response", respOf(mtNew, tid, false, false)},
		{"restart-response", respOf(mtRestart, tid, true, false)}, {"cancel-response", respOf(mtCancel, tid, false, false)},
		{"pause-response", respOf(mtUpdate, tid, false, true)}, {"resume-response", respOf(mtUpdate, tid, false, false)},
		{"complete-response", respOf(mtComplete, tid, true, false)}, {"finalizing-response", respOf(mtComplete, tid, true, true)},
		{"voucher-result-response", respOf(mtVoucherResult, tid, true, false)},
	}
	all := append(append([]msgCase(nil), reqs...), resps...)
	situations := []string{"no-channel", "their-pull-accepted", "their-pull-then-same-again", "our-pull-open"}
	callbacks := []string{"gincomingrequest", "gupdated", "gincomingresponse", "goutgoingblock"}
	id := 0
	ctx := context.Background()
	for _, sit := range situations {
		for _, cb := range callbacks {
			for _, mc := range all {
				id++
				label := fmt.Sprintf("situation=%s callback=%s message=%s", sit, cb, mc.name)
				res.CaseLabels = append(res.CaseLabels, label)
				if onlyCase != 0 && onlyCase != id {
					continue
				}
				g := newGsNodeRig(res)
				fail := func(prop, sig, what string) {
					res.fail(monitorFailure{Property: prop, CaseID: id, Signature: sig, What: what, Input: label})
				}
				// ---- bring the node into the situation ----
				ok := true
				step := func(s tStep) tObs {
					o := g.tr.exec(s)
					if o.Hang || o.Panic != "" {
						ok = false
					}
					return o
				}
				pull := newReq(tid, true)
				switch sit {
				case "their-pull-accepted", "their-pull-then-same-again":
					g.nr.mu.Lock()
					g.nr.vals = []valSpec{{Accepted: true}}
					g.nr.mu.Unlock()
					step(tStep{Kind: "gincomingrequest", P: 2, Rid: 1, Msg: &pull})
					if sit == "their-pull-then-same-again" {
						step(tStep{Kind: "gprocessing", Rid: 1})
					}
				case "our-pull-open":
					if _, err := g.mgr.OpenPullDataChannel(ctx, peerOf(2), datatransfer.TypedVoucher{Type: "T1", Voucher: nodeOf(3)}, cidOf(1), nodeOf(2)); err != nil {
						ok = false
					}
				}
				if !ok {
					fail("C20", "gsnode-setup-failed:"+sit, "bringing the node into the situation hung or panicked")
					_ = g.mgr.Stop(ctx)
					continue
				}
				// the message addresses the channel of the situation: their pull (2,1,tid), or our pull (1,2,first id)
				m := mc.m
				if sit == "our-pull-open" {
					chs, _ := g.mgr.InProgressChannels(ctx)
					for c := range chs {
						if c.Initiator == peerOf(1) {
							m.Tid = g.nr.tids.tok(uint64(c.ID))
							if m.Type == mtRestartExisting {
								m.Restart = chidTok{1, 2, m.Tid}
							}
						}
					}
				}
				curTids = g.nr.tids
				g.nr.mu.Lock()
				g.nr.vals = []valSpec{{Accepted: true}, {Accepted: true}}
				g.nr.mu.Unlock()
				var s tStep
				switch cb {
				case "gincomingrequest":
					s = tStep{Kind: "gincomingrequest", P: 2, Rid: 2, Msg: &m}
				case "gupdated":
					s = tStep{Kind: "gupdated", P: 2, Rid: 1, Msg: &m}
				case "gincomingresponse":
					s = tStep{Kind: "gincomingresponse", P: 2, Rid: 100, Msg: &m}
				default:
					s = tStep{Kind: "goutgoingblock", Rid: 1, Size: 10, Index: 1, OnWire: true}
				}
				theirs := chidTok{2, 1, tid}
				viewOf := func() string {
					st, err := g.mgr.ChannelState(ctx, g.nr.chidReal(theirs))
					if err != nil {
						return "none"
					}
					return g.nr.snapOf(st).View
				}
				hadTheirs := sit == "their-pull-accepted" || sit == "their-pull-then-same-again"
				viewBefore := ""
				if hadTheirs {
					viewBefore = viewOf()
				}
				o := g.tr.exec(s)
				// a graphsync request the transport refused (terminated) belongs to no channel: when graphsync then reports
				// the end of that refused response, no channel hears of it; and a refused duplicate of the request that
				// opened a channel leaves that channel as it was
				if cb == "gincomingrequest" && hadTheirs && !o.Hang && o.Panic == "" && o.Term {
					// the manager applies events and runs cleanup asynchronously (a cancel request moves the channel on
					// by itself): compare settled views only
					settled := func() string {
						v := viewOf()
						for i := 0; i < 300; i++ {
							time.Sleep(time.Millisecond)
							w := viewOf()
							if w == v && i >= 3 {
								break
							}
							v = w
						}
						return v
					}
					viewMid := settled()
					o2 := g.tr.exec(tStep{Kind: "gcompleted", Rid: 2, Status: 2})
					if !o2.Hang && o2.Panic == "" {
						viewAfter := settled()
						if viewAfter != viewMid {
							res.fail(monitorFailure{Property: "C16", CaseID: id, Signature: "refused-request-completion-hits-channel:" + mc.name, Input: label, Observed: viewAfter, Expected: viewMid,
								What: "the end of a graphsync response the transport had refused was reported for a channel that does not own that request"})
						}
						if (mc.name == "new-pull-request" || mc.name == "new-push-request") && viewAfter != viewBefore {
							res.fail(monitorFailure{Property: "C18", CaseID: id, Signature: "refused-duplicate-changed-existing-channel:" + mc.name, Input: label, Observed: viewAfter, Expected: viewBefore,
								What: "a second request with the transfer id of an existing channel was refused, but the existing channel's state changed"})
						}
					}
				}
				res.hist("callback:" + cb)
				res.hist("message:" + mc.name)
				if o.Hang {
					fail("C20", "transport-callback-hangs:"+cb+":"+mc.name, "a graphsync callback carrying a "+mc.name+" did not return (the events handler re-entered the transport under its lock)")
					fail("C16", "transport-callback-hangs:"+cb+":"+mc.name, "a graphsync callback carrying a "+mc.name+" did not return")
					// the rig is wedged: do not Stop it (that would block as well)
					continue
				}
				if o.Panic != "" {
					fail("C20", "transport-callback-panics:"+cb+":"+mc.name, "a graphsync callback panicked: "+strings.SplitN(o.Panic, "\n", 2)[0])
					fail("C16", "transport-callback-panics:"+cb+":"+mc.name, "a graphsync callback panicked: "+strings.SplitN(o.Panic, "\n", 2)[0])
				}
				// stopping the manager while transfers are active returns
				stopped := make(chan struct{})
				go func() { _ = g.mgr.Stop(ctx); close(stopped) }()
				select {
				case <-stopped:
				case <-time.After(5 * time.Second):
					fail("C20", "stop-hangs", "Stop did not return within 5s while a transfer was active")
				}
				res.distinct(label)
			}
		}
	}
	res.Cases = id
	res.Exhaustive = true
	res.Rule = "enumerated: 4 channel situations x 4 graphsync callbacks x 17 data-transfer messages (every request and response kind) delivered to the real Transport whose events handler is the real manager; each callback and the following Stop under a watchdog"
	res.write(dir)
}
