package main

import (
	"bytes"
	"fmt"
	"math"
	"path/filepath"
	"strings"

	"github.com/ipfs/go-cid"
	"github.com/ipfs/go-graphsync"
	"github.com/ipld/go-ipld-prime/codec"
	"github.com/ipld/go-ipld-prime/codec/dagcbor"
	"github.com/ipld/go-ipld-prime/datamodel"
	cidlink "github.com/ipld/go-ipld-prime/linking/cid"
	basicnode "github.com/ipld/go-ipld-prime/node/basic"
	"github.com/libp2p/go-libp2p/core/peer"
	mh "github.com/multiformats/go-multihash"

	datatransfer "github.com/filecoin-project/go-data-transfer/v2"
	"github.com/filecoin-project/go-data-transfer/v2/message"
	message1_1 "github.com/filecoin-project/go-data-transfer/v2/message/message1_1prime"
	"github.com/filecoin-project/go-data-transfer/v2/message/types"
	"github.com/filecoin-project/go-data-transfer/v2/transport/graphsync/extension"
)

// ---------- H12: wire format (C12) ----------

func coqBytes(b []byte) string {
	var xs []string
	for _, c := range b {
		xs = append(xs, fmt.Sprint(c))
	}
	return "(bs [" + strings.Join(xs, ";") + "])"
}

// coqNode prints an IPLD node as a Cbor.node term (map entries in iteration order)
func coqNode(n datamodel.Node) string {
	switch n.Kind() {
	case datamodel.Kind_Null:
		return "NNull"
	case datamodel.Kind_Bool:
		b, _ := n.AsBool()
		return "(NBool " + coqBool(b) + ")"
	case datamodel.Kind_Int:
		if u, ok := n.(datamodel.UintNode); ok {
			v, _ := u.AsUint()
			return fmt.Sprintf("(NInt false %d)", v)
		}
		v, _ := n.AsInt()
		if v >= 0 {
			return fmt.Sprintf("(NInt false %d)", v)
		}
		return fmt.Sprintf("(NInt true %d)", uint64(-(v + 1)))
	case datamodel.Kind_Float:
		f, _ := n.AsFloat()
		return fmt.Sprintf("(NFloat %d)", math.Float64bits(f))
	case datamodel.Kind_String:
		s, _ := n.AsString()
		return "(NString " + coqBytes([]byte(s)) + ")"
	case datamodel.Kind_Bytes:
		b, _ := n.AsBytes()
		return "(NBytes " + coqBytes(b) + ")"
	case datamodel.Kind_Link:
		l, _ := n.AsLink()
		return "(NLink " + coqBytes(l.(cidlink.Link).Cid.Bytes()) + ")"
	case datamodel.Kind_List:
		var xs []string
		it := n.ListIterator()
		for !it.Done() {
			_, v, _ := it.Next()
			xs = append(xs, coqNode(v))
		}
		return "(NList " + coqList(xs) + ")"
	case datamodel.Kind_Map:
		var xs []string
		it := n.MapIterator()
		for !it.Done() {
			k, v, _ := it.Next()
			ks, _ := k.AsString()
			xs = append(xs, "("+coqBytes([]byte(ks))+", "+coqNode(v)+")")
		}
		return "(NMap " + coqList(xs) + ")"
	}
	return "NNull"
}

func optNode(n datamodel.Node) string {
	if n == nil || n.Kind() == datamodel.Kind_Null {
		return "None" // null means none
	}
	return "(Some " + coqNode(n) + ")"
}

func coqWMsg(m datatransfer.Message) string {
	switch x := m.(type) {
	case *message1_1.TransferRequest1_1:
		bc := "None"
		if x.BaseCidPtr != nil {
			bc = "(Some " + coqBytes(x.BaseCidPtr.Bytes()) + ")"
		}
		return fmt.Sprintf("(WReq (mkWReq %s %d %s %s %s %s %s %s %d (mkWChid %s %s %d)))", bc, x.MessageType, coqBool(x.Pause), coqBool(x.Partial), coqBool(x.Pull),
			optNode(x.SelectorPtr), optNode(x.VoucherPtr), coqBytes([]byte(x.VoucherTypeIdentifier)), x.TransferId,
			coqBytes([]byte(x.RestartChannel.Initiator)), coqBytes([]byte(x.RestartChannel.Responder)), uint64(x.RestartChannel.ID))
	case *message1_1.TransferResponse1_1:
		return fmt.Sprintf("(WResp (mkWResp %d %s %s %d %s %s))", x.MessageType, coqBool(x.RequestAccepted), coqBool(x.Paused), x.TransferId,
			optNode(x.VoucherResultPtr), coqBytes([]byte(x.VoucherTypeIdentifier)))
	}
	return "UNKNOWN_MESSAGE"
}

// random IPLD values of every kind
func randNode(r *rng, depth int) datamodel.Node {
	k := r.intn(10)
	if depth <= 0 && k >= 7 {
		k = r.intn(7)
	}
	switch k {
	case 0:
		return basicnode.NewBool(r.chance(50))
	case 1:
		switch r.intn(6) {
		case 0:
			return basicnode.NewInt(0)
		case 1:
			return basicnode.NewInt(math.MaxInt64)
		case 2:
			return basicnode.NewInt(math.MinInt64)
		case 3:
			return basicnode.NewInt(-int64(r.intn(300)) - 1)
		case 4:
			return basicnode.NewInt(int64(r.next() >> 1))
		}
		return basicnode.NewInt(int64(r.intn(70000)))
	case 2:
		return basicnode.NewFloat([]float64{0, 1.5, -2.25, 1e300, 3.141592653589793}[r.intn(5)])
	case 3:
		ss := []string{"", "a", "héllo wörld", "日本語", strings.Repeat("s", 23), strings.Repeat("t", 24), strings.Repeat("u", 256), strings.Repeat("v", 300)}
		return basicnode.NewString(ss[r.intn(len(ss))])
	case 4:
		b := make([]byte, r.intn(40))
		for i := range b {
			b[i] = byte(r.intn(256))
		}
		return basicnode.NewBytes(b)
	case 5:
		h, _ := mh.Sum([]byte(fmt.Sprint(r.intn(1000))), mh.SHA2_256, -1)
		codecs := []uint64{cid.Raw, cid.DagCBOR, cid.DagProtobuf}
		if r.chance(15) {
			return basicnode.NewLink(cidlink.Link{Cid: cid.NewCidV0(h)})
		}
		return basicnode.NewLink(cidlink.Link{Cid: cid.NewCidV1(codecs[r.intn(3)], h)})
	case 6:
		if depth > 0 {
			return datamodel.Null // a null nested inside a value
		}
		return basicnode.NewInt(int64(r.intn(10)))
	case 7, 8:
		n := r.intn(5)
		if r.chance(5) {
			n = 24 + r.intn(3)
		}
		nb := basicnode.Prototype.List.NewBuilder()
		la, _ := nb.BeginList(int64(n))
		for i := 0; i < n; i++ {
			_ = la.AssembleValue().AssignNode(randNode(r, depth-1))
		}
		_ = la.Finish()
		return nb.Build()
	}
	n := r.intn(5)
	nb := basicnode.Prototype.Map.NewBuilder()
	ma, _ := nb.BeginMap(int64(n))
	used := map[string]bool{}
	for i := 0; i < n; i++ {
		keys := []string{"a", "b", "bb", "aa", "Z", "key", "", "ключ", strings.Repeat("k", 25), fmt.Sprint(r.intn(50))}
		k := keys[r.intn(len(keys))]
		if used[k] {
			continue
		}
		used[k] = true
		_ = ma.AssembleKey().AssignString(k)
		_ = ma.AssembleValue().AssignNode(randNode(r, depth-1))
	}
	_ = ma.Finish()
	return nb.Build()
}

func randTopNode(r *rng) datamodel.Node {
	n := randNode(r, 3)
	for n.Kind() == datamodel.Kind_Null {
		n = randNode(r, 3)
	}
	return n
}

func randTid(r *rng) datatransfer.TransferID {
	switch r.intn(6) {
	case 0:
		return 0
	case 1:
		return datatransfer.TransferID(math.MaxUint64)
	case 2:
		return 1 << 63
	case 3:
		return datatransfer.TransferID(r.next())
	}
	return datatransfer.TransferID(r.intn(100000))
}

func randCid(r *rng) cid.Cid {
	h, _ := mh.Sum([]byte(fmt.Sprint(r.intn(1000))), mh.SHA2_256, -1)
	if r.chance(20) {
		return cid.NewCidV0(h)
	}
	return cid.NewCidV1([]uint64{cid.Raw, cid.DagCBOR}[r.intn(2)], h)
}

// shuffled re-encoding of the struct-level maps of a message (payload values keep their canonical form)
func permuted(r *rng, n datamodel.Node) []byte {
	var shuffle func(n datamodel.Node, top bool) datamodel.Node
	shuffle = func(n datamodel.Node, top bool) datamodel.Node {
		if n.Kind() != datamodel.Kind_Map {
			return n
		}
		type kv struct {
			k string
			v datamodel.Node
		}
		var es []kv
		it := n.MapIterator()
		for !it.Done() {
			k, v, _ := it.Next()
			ks, _ := k.AsString()
			if top && (ks == "Request" || ks == "Response") {
				v = shuffle(v, false)
			}
			es = append(es, kv{ks, v})
		}
		for i := len(es) - 1; i > 0; i-- {
			j := r.intn(i + 1)
			es[i], es[j] = es[j], es[i]
		}
		nb := basicnode.Prototype.Map.NewBuilder()
		ma, _ := nb.BeginMap(int64(len(es)))
		for _, e := range es {
			_ = ma.AssembleKey().AssignString(e.k)
			_ = ma.AssembleValue().AssignNode(e.v)
		}
		_ = ma.Finish()
		return nb.Build()
	}
	// payloads must be canonical before the outer maps are written unsorted: round-trip them first
	var canon bytes.Buffer
	_ = dagcbor.Encode(n, &canon)
	nb := basicnode.Prototype.Any.NewBuilder()
	_ = dagcbor.Decode(nb, bytes.NewReader(canon.Bytes()))
	sh := shuffle(nb.Build(), true)
	var out bytes.Buffer
	_ = dagcbor.EncodeOptions{AllowLinks: true, MapSortMode: codec.MapSortMode_None}.Encode(sh, &out)
	return out.Bytes()
}

func msgType(m datatransfer.Message) uint64 {
	switch x := m.(type) {
	case *message1_1.TransferRequest1_1:
		return x.MessageType
	case *message1_1.TransferResponse1_1:
		return x.MessageType
	}
	return 99
}

// the remaining primary kinds that have no predicate of their own on both message sorts
func kindOnlyVoucher(m datatransfer.Message) bool {
	t := types.MessageType(msgType(m))
	return t == types.VoucherMessage || t == types.VoucherResultMessage
}
func kindRestartExisting(m datatransfer.Message) bool {
	return types.MessageType(msgType(m)) == types.RestartExistingChannelRequestMessage
}
func kindComplete(m datatransfer.Message) bool {
	return types.MessageType(msgType(m)) == types.CompleteMessage
}

type gsExt struct{ n datamodel.Node }

func (g gsExt) Extension(name graphsync.ExtensionName) (datamodel.Node, bool) { return g.n, true }

func runWire(dir string, seed uint64, tier string) {
	res := newResult("wire", seed, tier)
	r := newRng(seed)
	n := 500
	if tier == "thorough" {
		n = 12000
	}
	fail := func(id int, sig, what, input string, obs, exp interface{}) {
		res.fail(monitorFailure{Property: "C12", CaseID: id, Signature: sig, What: what, Input: input, Observed: obs, Expected: exp})
	}
	var lines []string
	peers6 := []peer.ID{peerOf(1), peerOf(2), peerOf(3), peerOf(4)}
	for id := 1; id <= n; id++ {
		tid := randTid(r)
		vtypes := []string{"", "T1", "voucher/type/ü", strings.Repeat("Y", 30)}
		mkV := func() *datatransfer.TypedVoucher {
			if r.chance(12) {
				return nil
			}
			if r.chance(8) {
				// a type identifier without a voucher: the two are independent wire fields
				return &datatransfer.TypedVoucher{Type: datatransfer.TypeIdentifier(vtypes[1+r.intn(len(vtypes)-1)]), Voucher: datamodel.Null}
			}
			return &datatransfer.TypedVoucher{Type: datatransfer.TypeIdentifier(vtypes[r.intn(len(vtypes))]), Voucher: randTopNode(r)}
		}
		var m datatransfer.Message
		var err error
		kind := r.intn(13)
		// the flags handed to the constructor, to be read back from the decoded message
		var wantAcc, wantPause, wantPull, wantRestart *bool
		flag := func(dst **bool) bool { b := r.chance(50); *dst = &b; return b }
		switch kind {
		case 0, 1:
			v := mkV()
			for v == nil {
				v = mkV()
			}
			isR := kind == 1
			wantRestart = &isR
			m, err = message.NewRequest(tid, kind == 1, flag(&wantPull), v, randCid(r), randTopNode(r))
		case 2:
			m = message.RestartExistingChannelRequest(datatransfer.ChannelID{Initiator: peers6[r.intn(4)], Responder: peers6[r.intn(4)], ID: tid})
		case 3:
			m = message.CancelRequest(tid)
		case 4:
			m = message.UpdateRequest(tid, flag(&wantPause))
		case 5:
			v := mkV()
			for v == nil {
				v = mkV()
			}
			m, err = message.VoucherRequest(tid, v)
		case 6:
			m, err = message.RestartResponse(tid, flag(&wantAcc), flag(&wantPause), mkV())
		case 7:
			m, err = message.NewResponse(tid, flag(&wantAcc), flag(&wantPause), mkV())
		case 8:
			m, err = message.VoucherResultResponse(tid, flag(&wantAcc), flag(&wantPause), mkV())
		case 9:
			m = message.UpdateResponse(tid, flag(&wantPause))
		case 10:
			m = message.CancelResponse(tid)
		case 11:
			m, err = message.CompleteResponse(tid, flag(&wantAcc), flag(&wantPause), mkV())
		default:
			// a validation response reports acceptance precisely when validation succeeded and accepted
			vr := datatransfer.ValidationResult{Accepted: r.chance(50), VoucherResult: mkV(), ForcePause: r.chance(30)}
			var verr error
			if r.chance(35) {
				verr = fmt.Errorf("validation error")
			}
			resp, rerr := message.ValidationResultResponse([]types.MessageType{types.NewMessage, types.VoucherResultMessage, types.CompleteMessage, types.RestartMessage}[r.intn(4)], tid, vr, verr, r.chance(50))
			m, err = resp, rerr
			if rerr != nil {
				break
			}
			if resp.Accepted() != (verr == nil && vr.Accepted) {
				fail(id, "validation-response-acceptance", "a validation response's acceptance is not (no error AND accepted)", fmt.Sprintf("accepted=%v err=%v", vr.Accepted, verr), resp.Accepted(), verr == nil && vr.Accepted)
			}
		}
		label := fmt.Sprintf("kind=%d tid=%d", kind, uint64(tid))
		res.CaseLabels = append(res.CaseLabels, label)
		if onlyCase != 0 && onlyCase != id {
			continue
		}
		if err != nil || m == nil {
			fail(id, "constructor-failed", fmt.Sprintf("constructor failed: %v", err), label, nil, nil)
			continue
		}
		var wire bytes.Buffer
		if err := m.ToNet(&wire); err != nil {
			fail(id, "tonet-failed", "ToNet failed: "+err.Error(), label, nil, nil)
			continue
		}
		dec, err := message.FromNet(bytes.NewReader(wire.Bytes()))
		if err != nil {
			fail(id, "fromnet-failed", "FromNet failed on ToNet's bytes: "+err.Error(), label, nil, nil)
			continue
		}
		// every message is classified as exactly one kind
		kinds := 0
		for _, b := range []bool{dec.IsNew(), dec.IsRestart(), dec.IsUpdate(), dec.IsCancel(), kindOnlyVoucher(dec), kindRestartExisting(dec), kindComplete(dec)} {
			if b {
				kinds++
			}
		}
		if kinds != 1 {
			fail(id, "not-exactly-one-kind", "a message is not classified as exactly one kind", label, kinds, 1)
		}
		// the voucher / voucher result is observable through the accessors exactly when one travelled:
		// any non-null value comes back equal, null (or absent) means none -- whatever the type identifier says
		nodeBytes := func(n datamodel.Node) string {
			var b bytes.Buffer
			_ = dagcbor.Encode(n, &b)
			return b.String()
		}
		present := func(n datamodel.Node) bool { return n != nil && !n.IsNull() }
		switch x := m.(type) {
		case *message1_1.TransferRequest1_1:
			if dq, ok := dec.(datatransfer.Request); ok {
				v, verr := dq.Voucher()
				tv, terr := dq.TypedVoucher()
				if present(x.VoucherPtr) {
					if verr != nil || terr != nil || !present(v) || nodeBytes(v) != nodeBytes(x.VoucherPtr) || tv.Type != x.VoucherTypeIdentifier || dq.VoucherType() != x.VoucherTypeIdentifier {
						fail(id, "voucher-lost-through-accessors", "a request's voucher or type identifier is not readable through the accessors after decoding", label, fmt.Sprint(verr, terr), nil)
					}
				} else if verr == nil && !present(v) {
					fail(id, "absent-voucher-reported-present", "a request that carries no voucher yields a nil / null voucher WITHOUT an error from Voucher()", label, nil, nil)
				}
			}
		case *message1_1.TransferResponse1_1:
			if ds, ok := dec.(datatransfer.Response); ok {
				v, verr := ds.VoucherResult()
				if present(x.VoucherResultPtr) {
					if verr != nil || !present(v) || nodeBytes(v) != nodeBytes(x.VoucherResultPtr) || ds.VoucherResultType() != x.VoucherTypeIdentifier {
						fail(id, "voucher-lost-through-accessors", "a response's voucher result or type identifier is not readable through the accessors after decoding", label, fmt.Sprint(verr), nil)
					}
				} else if verr == nil && !present(v) {
					fail(id, "absent-voucher-reported-present", "a response that carries no voucher result yields a nil / null result WITHOUT an error from VoucherResult()", label, nil, nil)
				}
			}
		}
		// the flags given to the constructor survive the wire intact, each on its own
		{
			type flagged interface{ IsPaused() bool }
			bad := ""
			if wantPause != nil {
				if f, ok := dec.(flagged); !ok || f.IsPaused() != *wantPause {
					bad += fmt.Sprintf(" paused(want %v)", *wantPause)
				}
			}
			if ds, ok := dec.(datatransfer.Response); ok && wantAcc != nil && ds.Accepted() != *wantAcc {
				bad += fmt.Sprintf(" accepted(want %v)", *wantAcc)
			}
			if dq, ok := dec.(datatransfer.Request); ok {
				if wantPull != nil && dq.IsPull() != *wantPull {
					bad += fmt.Sprintf(" pull(want %v)", *wantPull)
				}
				if wantRestart != nil && dq.IsRestart() != *wantRestart {
					bad += fmt.Sprintf(" restart(want %v)", *wantRestart)
				}
			}
			if bad != "" {
				fail(id, "flag-changed-on-the-wire", "a flag handed to the message constructor reads differently after ToNet / FromNet:"+bad, label, nil, nil)
			}
		}
		if dec.IsRequest() != m.IsRequest() || dec.TransferID() != m.TransferID() {
			fail(id, "round-trip-changed-message", "FromNet(ToNet(m)) differs from m in request flag or transfer id", label, nil, nil)
		}
		// the IPLD (graphsync extension) form
		nd := m.ToIPLD()
		var viaIPLD bytes.Buffer
		if err := dagcbor.Encode(nd, &viaIPLD); err != nil || !bytes.Equal(viaIPLD.Bytes(), wire.Bytes()) {
			fail(id, "ipld-form-differs", "the DAG-CBOR encoding of ToIPLD differs from ToNet", label, nil, nil)
		}
		dec2, err := message.FromIPLD(nd)
		if err != nil || coqWMsg(dec2) != coqWMsg(m) {
			fail(id, "ipld-round-trip", "FromIPLD(ToIPLD(m)) differs from m", label, nil, nil)
		}
		exts, err := extension.ToExtensionData(m, []graphsync.ExtensionName{extension.ExtensionDataTransfer1_1})
		if err != nil || len(exts) != 1 {
			fail(id, "extension-encode", "ToExtensionData failed", label, nil, nil)
		} else {
			dec3, err := extension.GetTransferData(gsExt{exts[0].Data}, []graphsync.ExtensionName{extension.ExtensionDataTransfer1_1})
			if err != nil || dec3 == nil || coqWMsg(dec3) != coqWMsg(m) {
				fail(id, "extension-round-trip", "GetTransferData(ToExtensionData(m)) differs from m", label, nil, nil)
			}
		}
		// permuted key orders decode to the same message
		var perms []string
		for p := 0; p < 2; p++ {
			pb := permuted(r, nd)
			decp, err := message.FromNet(bytes.NewReader(pb))
			if err != nil {
				fail(id, "permuted-keys-rejected", "a message whose map keys arrive in another order was rejected: "+err.Error(), label, nil, nil)
				continue
			}
			if coqWMsg(decp) != coqWMsg(dec) {
				fail(id, "permuted-keys-differ", "a message whose map keys arrive in another order decodes differently", label, nil, nil)
			}
			perms = append(perms, coqBytes(pb))
		}
		lines = append(lines, fmt.Sprintf("  mkWireCase %d\n   %s\n   %s\n   %s\n   %s", id, coqWMsg(m), coqBytes(wire.Bytes()), coqWMsg(dec), coqList(perms)))
		res.hist(fmt.Sprintf("constructor:%02d", kind))
		res.hist(fmt.Sprintf("bytes:%04d", wire.Len()/100*100))
		res.distinct(fmt.Sprintf("%x", wire.Bytes()))
	}
	// ---- the published numbering of the message types (append-only: peers running other builds rely on it) ----
	published := []struct {
		name string
		got  types.MessageType
		want uint64
	}{{"NewMessage", types.NewMessage, 0}, {"UpdateMessage", types.UpdateMessage, 1}, {"CancelMessage", types.CancelMessage, 2},
		{"CompleteMessage", types.CompleteMessage, 3}, {"VoucherMessage", types.VoucherMessage, 4}, {"VoucherResultMessage", types.VoucherResultMessage, 5},
		{"RestartMessage", types.RestartMessage, 6}, {"RestartExistingChannelRequestMessage", types.RestartExistingChannelRequestMessage, 7}}
	for _, p := range published {
		if uint64(p.got) != p.want {
			fail(0, "message-type-renumbered:"+p.name, "a message type no longer has its published number: peers running other builds read it as another kind", p.name, uint64(p.got), p.want)
		}
	}
	// a voucher request and a voucher-result response as another build writes them (golden bytes) are still read as such
	for _, g := range []struct {
		name  string
		build func() (datatransfer.Message, error)
		typ   byte
	}{
		{"voucher request", func() (datatransfer.Message, error) {
			return message.VoucherRequest(7, &datatransfer.TypedVoucher{Type: "T1", Voucher: basicnode.NewInt(1)})
		}, 4},
		{"voucher-result response", func() (datatransfer.Message, error) {
			return message.VoucherResultResponse(7, true, false, &datatransfer.TypedVoucher{Type: "R1", Voucher: basicnode.NewInt(1)})
		}, 5},
		{"complete response", func() (datatransfer.Message, error) { return message.CompleteResponse(7, true, false, nil) }, 3},
		{"restart request", func() (datatransfer.Message, error) {
			return message.NewRequest(7, true, true, &datatransfer.TypedVoucher{Type: "T1", Voucher: basicnode.NewInt(1)}, randCid(r), basicnode.NewInt(2))
		}, 6},
	} {
		m, err := g.build()
		if err != nil {
			continue
		}
		var b bytes.Buffer
		if m.ToNet(&b) != nil {
			continue
		}
		// the Type field of the body: key "Type" (0x64 'T' 'y' 'p' 'e') followed by the number
		i := bytes.Index(b.Bytes(), []byte{0x64, 'T', 'y', 'p', 'e'})
		if i < 0 || i+5 >= b.Len() || b.Bytes()[i+5] != g.typ {
			obs := -1
			if i >= 0 && i+5 < b.Len() {
				obs = int(b.Bytes()[i+5])
			}
			fail(0, "message-type-on-wire:"+g.name, "the Type number written for a "+g.name+" is not the published one", g.name, obs, int(g.typ))
		}
	}
	// ---- arbitrary bytes: the decoders never panic and never yield a message without a body ----
	nFuzz := 4000
	if tier == "thorough" {
		nFuzz = 150000
	}
	valid := [][]byte{}
	for i := 0; i < 12; i++ {
		for _, mm := range netMessages(uint64(i) * 7919) {
			var b bytes.Buffer
			_ = mm.ToNet(&b)
			valid = append(valid, b.Bytes())
		}
	}
	accepted := 0
	for i := 0; i < nFuzz; i++ {
		var in []byte
		switch r.intn(4) {
		case 0:
			in = make([]byte, r.intn(60))
			for j := range in {
				in[j] = byte(r.intn(256))
			}
		default:
			src := valid[r.intn(len(valid))]
			in = append([]byte(nil), src...)
			for k := 0; k <= r.intn(3); k++ {
				switch r.intn(5) {
				case 0:
					in[r.intn(len(in))] = byte(r.intn(256))
				case 1:
					in = in[:r.intn(len(in)+1)]
				case 2:
					p := r.intn(len(in) + 1)
					in = append(in[:p], append([]byte{byte(r.intn(256))}, in[p:]...)...)
				case 3: // flip the body-presence: replace a body by null
					in = bytes.Replace(in, []byte{0x67, 'R', 'e', 'q', 'u', 'e', 's', 't', 0xaa}, []byte{0x67, 'R', 'e', 'q', 'u', 'e', 's', 't', 0xf6}, 1)
				default:
					if len(in) > 7 && in[6] == 0xf5 {
						in[6] = 0xf4
					} else if len(in) > 7 && in[6] == 0xf4 {
						in[6] = 0xf5
					}
				}
				if len(in) == 0 {
					break
				}
			}
		}
		func() {
			defer func() {
				if p := recover(); p != nil {
					fail(0, "decoder-panic", fmt.Sprintf("FromNet / FromIPLD panicked: %v", p), fmt.Sprintf("%x", in), nil, nil)
				}
			}()
			m, err := message.FromNet(bytes.NewReader(in))
			if err == nil {
				accepted++
				if m == nil {
					fail(0, "decoded-nil-message", "FromNet returned no error and no message", fmt.Sprintf("%x", in), nil, nil)
					return
				}
				// every accessor of an accepted message must be usable: the body is present
				_ = m.TransferID()
				_ = m.IsRequest()
				_ = m.IsNew()
				_ = m.IsPaused()
				if rq, ok := m.(datatransfer.Request); ok {
					_, _ = rq.Voucher()
					_ = rq.BaseCid()
					_, _ = rq.Selector()
					_, _ = rq.RestartChannelId()
				}
				if rs, ok := m.(datatransfer.Response); ok {
					_, _ = rs.VoucherResult()
					_ = rs.Accepted()
				}
				_ = coqWMsg(m)
			}
			// the IPLD decoder on whatever data model value the bytes denote
			nb := basicnode.Prototype.Any.NewBuilder()
			if dagcbor.Decode(nb, bytes.NewReader(in)) == nil {
				m2, err2 := message.FromIPLD(nb.Build())
				if err2 == nil && m2 != nil {
					_ = m2.TransferID()
					_ = coqWMsg(m2)
				}
				if err2 == nil && m2 == nil {
					fail(0, "decoded-nil-message", "FromIPLD returned no error and no message", fmt.Sprintf("%x", in), nil, nil)
				}
			}
		}()
	}
	res.Extra["malformed_inputs"] = nFuzz
	res.Extra["malformed_inputs_accepted"] = accepted
	res.Cases = len(lines)
	res.Rule = "every constructor (13 kinds incl. ValidationResultResponse over accepted x error) with transfer ids 0 / 2^63 / 2^64-1 / random 64-bit / small, vouchers, voucher results and selectors drawn from random IPLD values of every kind (ints incl. min/max int64, floats, unicode and 23/24/256-byte strings, bytes, CIDv0/v1 links, nested lists and maps with unsorted keys, nested nulls), unicode and empty type identifiers, real peer ids; each message: ToNet bytes, FromNet, ToIPLD+dagcbor, FromIPLD, extension round trip, two encodings with shuffled struct keys; plus a stream of random and mutated byte strings for decoder safety (a test, not a proof)"
	const shard = 60
	for i := 0; i*shard < len(lines) || i == 0; i++ {
		lo, hi := i*shard, (i+1)*shard
		if hi > len(lines) {
			hi = len(lines)
		}
		body := "From Coq Require Import List NArith ZArith String Ascii Bool.\nFrom DT Require Import Cbor Wire WireCorr.\nImport ListNotations.\nLocal Open Scope N_scope.\n\nDefinition cases : list wirecase := [\n" +
			strings.Join(lines[lo:hi], ";\n") + "\n].\n\nDefinition M := Eval vm_compute in mismatches cases.\nPrint M.\n"
		writeFile(filepath.Join(dir, fmt.Sprintf("cases_wire_%03d.v", i)), body)
	}
	res.write(dir)
}
