package main

import (
	logging "github.com/ipfs/go-log/v2"

	"flag"
	"fmt"
	"os"
	"strconv"
)

// onlyCase, when non-zero, restricts a suite to one case id (deterministic replay)
var onlyCase int

func main() {
	out := flag.String("out", "", "output directory for cases_*.v and result_*.json")
	tier := flag.String("tier", "quick", "quick|thorough")
	seed := flag.Uint64("seed", 1, "PRNG seed")
	only := flag.Int("only", 0, "run only the case with this id (replay)")
	flag.Parse()
	logging.SetAllLoggers(logging.LevelFatal)
	if s := os.Getenv("VERIF_SEED"); s != "" && *seed == 1 {
		if v, err := strconv.ParseUint(s, 10, 64); err == nil {
			*seed = v
		}
	}
	if flag.NArg() < 1 || *out == "" {
		fmt.Fprintln(os.Stderr, "usage: harness -out dir [-tier t] [-seed n] suite...")
		os.Exit(2)
	}
	onlyCase = *only
	for _, suite := range flag.Args() {
		switch suite {
		case "fsmtable":
			runH1Table(*out, *seed, *tier)
		case "fsmcleanup":
			runH1Cleanup(*out, *seed, *tier)
		case "fsmreports":
			runH1Reports(*out, *seed, *tier)
		case "fsmpause":
			runH1Pause(*out, *seed, *tier)
		case "nodeflow":
			runNodeFlow(*out, *seed, *tier)
		case "nodevalidate":
			runNodeValidate(*out, *seed, *tier)
		case "noderestart":
			runNodeRestart(*out, *seed, *tier)
		case "nodepeers":
			runNodePeers(*out, *seed, *tier)
		case "nodeapi":
			runNodeAPI(*out, *seed, *tier)
		case "transport":
			runTransport(*out, *seed, *tier)
		case "nodemonitor":
			runNodeMonitor(*out, *seed, *tier)
		case "e2erace":
			runE2ERace(*out, *seed, *tier)
		case "e2erestart":
			runE2ERestart(*out, *seed, *tier)
		case "e2e":
			runE2E(*out, *seed, *tier)
		case "stress":
			runStress(*out, *seed, *tier)
		case "gsnode":
			runGsNode(*out, *seed, *tier)
		case "statecodec":
			runStateCodec(*out, *seed, *tier)
		case "wire":
			runWire(*out, *seed, *tier)
		case "crash":
			runCrash(*out, *seed, *tier)
		case "migrate":
			runMigrate(*out, *seed, *tier)
		case "net":
			runNet(*out, *seed, *tier)
		case "subs":
			runSubs(*out, *seed, *tier)
		case "fsmrace":
			runH1Race(*out, *seed, *tier)
		case "monitor":
			runMonitor(*out, *seed, *tier)
		case "nodeterminal":
			runNodeTerminal(*out, *seed, *tier)
		case "fsmhist":
			runH1Hist(*out, *seed, *tier)
		default:
			fmt.Fprintln(os.Stderr, "unknown suite", suite)
			os.Exit(2)
		}
	}
}
