package main

import (
	"bytes"
	"context"
	"fmt"
	"path/filepath"
	"sort"
	"strings"
	"time"

	"github.com/ipfs/go-datastore"

	datatransfer "github.com/filecoin-project/go-data-transfer/v2"
	"github.com/filecoin-project/go-data-transfer/v2/channels"
)

// ---------- crash: every datastore-write boundary of generated histories (C06) ----------

type crashChan struct {
	chid   datatransfer.ChannelID
	key    string
	first  string
	events []fsmEv
	seen   []string // "(raw, view)" pairs, distinct consecutive
	last   string
}

func runCrash(dir string, seed uint64, tier string) {
	res := newResult("crash", seed, tier)
	r := newRng(seed)
	n := 300
	if tier == "thorough" {
		n = 2500
	}
	variants := allEventVariants()
	var usable []fsmEv
	for _, e := range variants {
		if e.Code == datatransfer.RequestTimedOut || e.Code == datatransfer.TransferRequestQueued || e.Code == datatransfer.SendMessageError {
			continue
		}
		usable = append(usable, e)
	}
	var lines []string
	ctx := context.Background()
	fail := func(id int, sig, what, input string, obs, exp interface{}) {
		res.fail(monitorFailure{Property: "C06", CaseID: id, Signature: sig, What: what, Input: input, Observed: obs, Expected: exp})
	}
	boundaries := 0
	for id := 1; id <= n; id++ {
		nchan := 1 + r.intn(3)
		hlen := 4 + r.intn(12)
		type step struct {
			ch int
			ev fsmEv
		}
		var hist []step
		for i := 0; i < hlen; i++ {
			var e fsmEv
			switch x := r.intn(100); {
			case i < 2 && x < 60:
				e = fsmEv{Code: datatransfer.Accept}
			case x < 12:
				e = []fsmEv{{Code: datatransfer.Cancel}, {Code: datatransfer.Error, Err: "E1"}, {Code: datatransfer.Complete}, {Code: datatransfer.FinishTransfer}, {Code: datatransfer.ResponderCompletes}}[r.intn(5)]
			default:
				e = usable[r.intn(len(usable))]
			}
			hist = append(hist, step{r.intn(nchan), e})
		}
		var names []string
		for _, s := range hist {
			names = append(names, fmt.Sprintf("ch%d:%s", s.ch, s.ev.String()))
		}
		label := fmt.Sprintf("channels=%d history=%s", nchan, strings.Join(names, " ; "))
		res.CaseLabels = append(res.CaseLabels, label)
		if onlyCase != 0 && onlyCase != id {
			continue
		}
		rig := newFsmRig(res, 1, nil)
		chans := make([]*crashChan, nchan)
		for c := 0; c < nchan; c++ {
			tid := uint64(id*10 + c)
			var chid datatransfer.ChannelID
			switch c % 3 {
			case 0:
				chid = rig.create(tid, 1, 1, 2, 1, 2, datatransfer.TypedVoucher{Type: "T1", Voucher: nodeOf(3)}) // our push
			case 1:
				chid = rig.create(tid, 1, 2, 1, 2, 1, datatransfer.TypedVoucher{Type: "T1", Voucher: nodeOf(4)}) // our pull
			default:
				chid = rig.create(tid, 2, 2, 1, 1, 2, datatransfer.TypedVoucher{Type: "T2", Voucher: nodeOf(5)}) // a push we received
			}
			chans[c] = &crashChan{chid: chid, key: rig.keyOf[chid].String()}
		}
		for _, s := range hist {
			cc := chans[s.ch]
			cc.events = append(cc.events, s.ev)
			_ = rig.ch.VerifSend(cc.chid, s.ev.Code, s.ev.args()...)
			rig.quiesce(cc.chid)
			// any state returned by a query is already durable
			if st, err := rig.ch.GetByID(ctx, cc.chid); err == nil {
				raw, _ := rig.rawState(cc.chid)
				if raw != nil && coqView(st, nil) != coqView(channels.VerifFromInternal(*raw), nil) {
					fail(id, "query-state-not-durable", "a state returned by GetByID differs from the record in the datastore", label, nil, nil)
				}
			}
		}
		ops := rig.ds.ops()
		_ = rig.ch.Stop(ctx)
		// ---- every write boundary ----
		for i := 0; i <= len(ops); i++ {
			boundaries++
			ds := newRecDS()
			created := map[string]bool{}
			for _, o := range ops[:i] {
				if o.Put {
					_ = ds.inner.Put(ctx, datastore.NewKey(o.Key), o.Val)
					created[o.Key] = true
				} else {
					_ = ds.inner.Delete(ctx, datastore.NewKey(o.Key))
					delete(created, o.Key)
				}
			}
			env := &fsmEnv{self: peerOf(1)}
			ch2, err := channels.New(ds, func(datatransfer.Event, datatransfer.ChannelState) {}, env, peerOf(1))
			if err != nil {
				fail(id, "reopen-failed", "channels.New failed on a crash image: "+err.Error(), label, i, nil)
				continue
			}
			if err := ch2.Start(ctx); err != nil {
				fail(id, "reopen-failed", "Start failed on a crash image: "+err.Error(), label, i, nil)
				continue
			}
			listed, lerr := ch2.InProgress()
			if lerr != nil {
				fail(id, "listing-failed", "InProgress failed on a crash image: "+lerr.Error(), label, i, nil)
			}
			for _, cc := range chans {
				has, _ := ch2.HasChannel(cc.chid)
				_, isListed := listed[cc.chid]
				if has != created[cc.key] || (lerr == nil && isListed != created[cc.key]) {
					fail(id, "listed-channels-differ", "the channels present after reopening are not exactly those created before the crash", label,
						fmt.Sprintf("boundary %d: has=%v listed=%v", i, has, isListed), created[cc.key])
				}
				if !has {
					continue
				}
				st, err := ch2.GetByID(ctx, cc.chid)
				if err != nil {
					fail(id, "reopened-channel-unreadable", "a channel of a crash image cannot be read: "+err.Error(), label, i, nil)
					continue
				}
				b, _ := ds.inner.Get(ctx, datastore.NewKey(cc.key))
				var raw channels.VerifChannelState
				if err := raw.UnmarshalCBOR(bytes.NewReader(b)); err != nil {
					fail(id, "record-undecodable", "a record of a crash image does not decode: "+err.Error(), label, i, nil)
					continue
				}
				pair := fmt.Sprintf("(%s, %s)", coqChanRaw(&raw, res), coqView(st, res))
				if cc.first == "" {
					cc.first = coqChanRaw(&raw, res)
				}
				if pair != cc.last {
					cc.seen = append(cc.seen, pair)
					cc.last = pair
				}
				// a channel persisted while cleaning up finishes cleanup when it is restarted
				if raw.Status == datatransfer.Cancelling || raw.Status == datatransfer.Failing || raw.Status == datatransfer.Completing {
					want := map[datatransfer.Status]datatransfer.Status{datatransfer.Cancelling: datatransfer.Cancelled, datatransfer.Failing: datatransfer.Failed, datatransfer.Completing: datatransfer.Completed}[raw.Status]
					_ = ch2.CompleteCleanupOnRestart(cc.chid)
					deadline := time.Now().Add(3 * time.Second)
					var got datatransfer.Status
					for time.Now().Before(deadline) {
						if s2, err := ch2.GetByID(ctx, cc.chid); err == nil {
							got = s2.Status()
							if got == want {
								break
							}
						}
						time.Sleep(200 * time.Microsecond)
					}
					ncleanup := 0
					for _, c := range env.snapshot() {
						if c.Kind == "cleanup" && c.Chid == cc.chid {
							ncleanup++
						}
					}
					if got != want || ncleanup != 1 {
						fail(id, "cleanup-not-finished-on-restart", "a channel persisted while cleaning up did not finish cleanup (once) when restarted", label,
							fmt.Sprintf("boundary %d: status=%s cleanups=%d", i, statusName(got), ncleanup), statusName(want))
						res.fail(monitorFailure{Property: "C09", CaseID: id, Signature: "cleanup-not-finished-on-restart", What: "a channel persisted while cleaning up did not finish cleanup (once) when restarted", Input: label,
							Observed: fmt.Sprintf("boundary %d: status=%s cleanups=%d", i, statusName(got), ncleanup), Expected: statusName(want)})
						if raw.Status == datatransfer.Completing {
							res.fail(monitorFailure{Property: "C01", CaseID: id, Signature: "completing-channel-does-not-settle-after-crash", What: "a channel that had sent / received its final Complete and was persisted in Completing does not settle in Completed when the process comes back", Input: label,
								Observed: statusName(got), Expected: "Completed"})
						}
					}
					res.hist("restart-in-cleanup:" + statusName(raw.Status))
				}
			}
			_ = ch2.Stop(ctx)
		}
		var ccs []string
		for _, cc := range chans {
			var evs []string
			for _, e := range cc.events {
				evs = append(evs, e.coq())
			}
			ccs = append(ccs, fmt.Sprintf("mkCrashChan %s\n     %s\n     %s", cc.first, coqList(evs), coqList(cc.seen)))
			res.hist(fmt.Sprintf("distinct-states:%02d", len(cc.seen)))
		}
		sort.Strings(names)
		lines = append(lines, fmt.Sprintf("  mkCrashCase %s %s", coqN(uint64(id)), coqList(ccs)))
		res.hist(fmt.Sprintf("channels:%d", nchan))
		res.hist(fmt.Sprintf("writes:%02d", len(ops)/5*5))
		res.distinct(label)
	}
	res.Cases = len(lines)
	res.Extra["write_boundaries_reopened"] = boundaries
	res.Rule = "histories of 4-15 events (Accept early, 12% endings / completion signals, otherwise any event known to the processor with representative arguments) spread over 1-3 channels of different roles on one datastore; EVERY datastore-write boundary of every history is reopened with a fresh Channels on a copy holding exactly the writes before it; channels found in a cleanup status are restarted with CompleteCleanupOnRestart"
	const shard = 30
	for i := 0; i*shard < len(lines) || i == 0; i++ {
		lo, hi := i*shard, (i+1)*shard
		if hi > len(lines) {
			hi = len(lines)
		}
		body := "From Coq Require Import List NArith ZArith String Bool.\nFrom DT Require Import GenStatus GenEvent FsmTypes GenFsm Fsm Machine View FsmCorr CrashCorr.\nImport ListNotations.\nLocal Open Scope string_scope.\n\nDefinition cases : list crashcase := [\n" +
			strings.Join(lines[lo:hi], ";\n") + "\n].\n\nDefinition M := Eval vm_compute in mismatches cases.\nPrint M.\n"
		writeFile(filepath.Join(dir, fmt.Sprintf("cases_crash_%03d.v", i)), body)
	}
	res.write(dir)
}
