package main

import (
	"fmt"
	"path/filepath"
	"runtime"
	"strings"
	"sync"
	"sync/atomic"

	datatransfer "github.com/filecoin-project/go-data-transfer/v2"
)

// ---------- fsmrace: concurrent block reports for one (kind, channel) (C07 concurrent clause) ----------
//
// Several goroutines report positions for the same direction of the same channel at the same
// instant, on a cold cache (first report of the channel in this process) or a warm one.  Whatever
// the interleaving, the outcome must be the outcome of SOME sequential order of the reports:
// each position counted at most once, total = sum of the reports that advanced the mark.

type raceRep struct {
	Size   uint64
	Index  int64
	Unique bool
}

type raceCase struct {
	id      int
	kind    int
	warm    bool  // the cache held the durable index before the race
	dur0    int64 // durable index before the race
	base    uint64
	reps    []raceRep
	total   uint64
	mark    int64
	markOK  bool
	durable int64
}

func (c raceCase) coq() string {
	var rs []string
	for _, r := range c.reps {
		rs = append(rs, fmt.Sprintf("mkRep %s %s %s", coqZ(r.Index), coqN(r.Size), coqBool(r.Unique)))
	}
	warm := "None"
	if c.warm {
		warm = "(Some " + coqZ(c.dur0) + ")"
	}
	return fmt.Sprintf("  mkRace %s %s %s %s %s %s %s %s", coqN(uint64(c.id)), warm, coqZ(c.dur0), coqN(c.base), coqList(rs), coqN(c.total), optZ(c.mark, c.markOK), coqZ(c.durable))
}

func writeRaceCases(dir, name string, cases []raceCase) {
	const shard = 1500
	for i := 0; i*shard < len(cases) || i == 0; i++ {
		lo, hi := i*shard, (i+1)*shard
		if hi > len(cases) {
			hi = len(cases)
		}
		var b strings.Builder
		b.WriteString("From Coq Require Import List NArith ZArith Bool.\nFrom DT Require Import Conc RaceCorr.\nImport ListNotations.\n\n")
		b.WriteString("Definition cases : list racecase := [\n")
		for j, c := range cases[lo:hi] {
			b.WriteString(c.coq())
			if j != hi-lo-1 {
				b.WriteString(";\n")
			}
		}
		b.WriteString("\n].\n\nDefinition M := Eval vm_compute in mismatches cases.\nPrint M.\n")
		writeFile(filepath.Join(dir, fmt.Sprintf("cases_%s_%03d.v", name, i)), b.String())
	}
}

// achievable (cache mark, durable index, total) triples over all sequential orders of the reports;
// a cold cache is seeded from the durable index, which every report (unique or not) raises
func raceOutcomes(warm bool, dur0 int64, base uint64, reps []raceRep) map[[4]uint64]bool {
	out := map[[4]uint64]bool{}
	idx := make([]int, len(reps))
	for i := range idx {
		idx[i] = i
	}
	var rec func(k int)
	rec = func(k int) {
		if k == len(idx) {
			cached, m, d, t := warm, dur0, dur0, base
			for _, i := range idx {
				r := reps[i]
				if r.Unique {
					if !cached {
						cached, m = true, d
					}
					if r.Index > m {
						m = r.Index
						t += r.Size
					}
				}
				if r.Index > d {
					d = r.Index
				}
			}
			c := uint64(0)
			if cached {
				c = 1
			} else {
				m = 0
			}
			out[[4]uint64{c, uint64(m), uint64(d), t}] = true
			return
		}
		for i := k; i < len(idx); i++ {
			idx[k], idx[i] = idx[i], idx[k]
			rec(k + 1)
			idx[k], idx[i] = idx[i], idx[k]
		}
	}
	rec(0)
	return out
}

func runH1Race(dir string, seedv uint64, tier string) {
	res := newResult("fsmrace", seedv, tier)
	rig := newFsmRig(res, 1, nil)
	rng := newRng(seedv)
	n := 1500
	if tier == "thorough" {
		n = 30000
	}
	var cases []raceCase
	tid := uint64(7000000)
	for id := 1; id <= n; id++ {
		tid++
		kind := rng.intn(3)
		warm := rng.chance(35)
		nrep := 2 + rng.intn(3)
		label := ""
		st := seedVariants(datatransfer.Ongoing, tid, 1)[0]
		b0 := int64(rng.intn(3)) * 2 // durable index 0, 2 or 4
		base := uint64(rng.intn(3)) * 100
		if rng.chance(5) {
			base = 1<<64 - 50 // wrap-around
		}
		switch kind {
		case 0:
			st.QueuedBlocksTotal, st.Queued = b0, base
		case 1:
			st.SentBlocksTotal, st.Sent = b0, base
		case 2:
			st.ReceivedBlocksTotal, st.Received = b0, base
		}
		var reps []raceRep
		shape := rng.intn(4)
		for i := 0; i < nrep; i++ {
			r := raceRep{Size: uint64(1 + rng.intn(60)), Unique: !rng.chance(8)}
			switch shape {
			case 0: // everybody reports the same next position (a replayed / duplicated block)
				r.Index = b0 + 1
			case 1: // two positions
				r.Index = b0 + 1 + int64(i%2)
			case 2: // distinct consecutive positions
				r.Index = b0 + 1 + int64(i)
			default:
				r.Index = b0 - 1 + int64(rng.intn(5))
			}
			reps = append(reps, r)
		}
		label = fmt.Sprintf("kind=%d warm=%v durable-index=%d base=%d reports=%v", kind, warm, b0, base, reps)
		res.CaseLabels = append(res.CaseLabels, label)
		if onlyCase != 0 && onlyCase != id {
			continue
		}
		chid := rig.create(tid, 1, 1, 2, 1, 2, datatransfer.TypedVoucher{Type: "T1", Voucher: nodeOf(3)})
		rig.seed(chid, st)
		report := func(r raceRep) error {
			switch kind {
			case 0:
				return rig.ch.DataQueued(chid, cidOf(1), r.Size, r.Index, r.Unique)
			case 1:
				return rig.ch.DataSent(chid, cidOf(1), r.Size, r.Index, r.Unique)
			}
			return rig.ch.DataReceived(chid, cidOf(1), r.Size, r.Index, r.Unique)
		}
		if warm {
			// warm the cache with a replay of the durable position (counts nothing)
			_ = report(raceRep{Size: 1, Index: b0, Unique: true})
			rig.quiesce(chid)
		}
		start := make(chan struct{})
		var wg sync.WaitGroup
		errs := make([]error, nrep)
		for i := range reps {
			wg.Add(1)
			go func(i int) {
				defer wg.Done()
				<-start
				errs[i] = report(reps[i])
			}(i)
		}
		close(start)
		wg.Wait()
		rig.quiesce(chid)
		after, _ := rig.rawState(chid)
		evk := []datatransfer.EventCode{datatransfer.DataQueued, datatransfer.DataSent, datatransfer.DataReceived}[kind]
		cmark, cok := rig.ch.VerifIndexCache(evk, chid)
		total := []uint64{after.Queued, after.Sent, after.Received}[kind]
		durable := []int64{after.QueuedBlocksTotal, after.SentBlocksTotal, after.ReceivedBlocksTotal}[kind]
		if !cok {
			cmark = 0
		}
		for i, e := range errs {
			if e != nil {
				res.fail(monitorFailure{Property: "C07", CaseID: id, Signature: "race-report-error", What: fmt.Sprintf("report %d returned %v", i, e), Input: label})
			}
		}
		// direct monitor: the outcome is the outcome of some sequential order
		outs := raceOutcomes(warm, b0, base, reps)
		ck := uint64(0)
		if cok {
			ck = 1
		}
		if !outs[[4]uint64{ck, uint64(cmark), uint64(durable), total}] {
			var exp []string
			for k := range outs {
				exp = append(exp, fmt.Sprintf("(cached=%d,mark=%d,index=%d,total=%d)", k[0], int64(k[1]), int64(k[2]), k[3]))
			}
			res.fail(monitorFailure{Property: "C07", CaseID: id, Signature: "concurrent-reports-not-serializable",
				What:  "concurrent reports produced a byte total / mark that no sequential order of the same reports produces (a position counted twice or a report lost)",
				Input: label, Observed: fmt.Sprintf("(cached=%d,mark=%d,index=%d,total=%d)", ck, cmark, durable, total), Expected: strings.Join(exp, " or ")})
		}
		cases = append(cases, raceCase{id: id, kind: kind, warm: warm, dur0: b0, base: base, reps: reps, total: total, mark: cmark, markOK: cok, durable: durable})
		res.hist(fmt.Sprintf("reporters:%d", nrep))
		res.hist(fmt.Sprintf("shape:%d", shape))
		res.hist(fmt.Sprintf("warm:%v", warm))
		res.distinct(label)
	}
	// ---- lock-step walks: two reporters (the response being cancelled and the one answering a restart) report
	// the same positions 1..N at the same instants, each unique; every position is counted exactly once
	storms := 3
	npos := 2500
	if tier == "thorough" {
		storms, npos = 12, 6000
	}
	for sidx := 0; sidx < storms; sidx++ {
		tid++
		kind := sidx % 3
		chid := rig.create(tid, 1, 1, 2, 1, 2, datatransfer.TypedVoucher{Type: "T1", Voucher: nodeOf(3)})
		rig.seed(chid, seedVariants(datatransfer.Ongoing, tid, 1)[0])
		report := func(idx int64) {
			switch kind {
			case 0:
				_ = rig.ch.DataQueued(chid, cidOf(1), 10, idx, true)
			case 1:
				_ = rig.ch.DataSent(chid, cidOf(1), 10, idx, true)
			default:
				_ = rig.ch.DataReceived(chid, cidOf(1), 10, idx, true)
			}
		}
		var arrived int64
		var wg sync.WaitGroup
		for g := 0; g < 2; g++ {
			wg.Add(1)
			go func() {
				defer wg.Done()
				for p := 1; p <= npos; p++ {
					report(int64(p))
					atomic.AddInt64(&arrived, 1)
					for atomic.LoadInt64(&arrived) < int64(2*p) {
						runtime.Gosched()
					}
				}
			}()
		}
		wg.Wait()
		rig.quiesce(chid)
		after, _ := rig.rawState(chid)
		total := []uint64{after.Queued, after.Sent, after.Received}[kind]
		index := []int64{after.QueuedBlocksTotal, after.SentBlocksTotal, after.ReceivedBlocksTotal}[kind]
		label := fmt.Sprintf("lock-step walk kind=%d positions=1..%d by two reporters", kind, npos)
		if total != uint64(npos)*10 || index != int64(npos) {
			res.fail(monitorFailure{Property: "C07", CaseID: 0, Signature: "lock-step-reporters-miscounted", What: "two reporters walking the same positions at the same instants: a position was counted twice or the index is not the highest position", Input: label,
				Observed: fmt.Sprintf("total=%d index=%d", total, index), Expected: fmt.Sprintf("total=%d index=%d", npos*10, npos)})
			res.fail(monitorFailure{Property: "C01", CaseID: 0, Signature: "lock-step-reporters-miscounted", What: "two transport goroutines reporting the same blocks at once (a response being cancelled and the one answering the restart) make the byte total exceed the unique payload size", Input: label,
				Observed: fmt.Sprintf("total=%d", total), Expected: fmt.Sprintf("total=%d", npos*10)})
		}
		res.hist("lock-step-walks")
	}
	res.Cases = len(cases)
	res.Rule = "2-4 goroutines released together report positions for one direction of one fresh channel (cold cache = first report in this process, or warmed by a replay): same position, two positions, consecutive positions, or random around the durable index; 8% non-unique; byte totals incl. wrap-around; the interleaving is whatever the Go scheduler produces (not enumerated), the verdict is membership in the set of sequential outcomes; plus lock-step walks of two reporters over the same 2500 positions"
	writeRaceCases(dir, "fsmrace", cases)
	res.write(dir)
}
