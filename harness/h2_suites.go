package main

import (
	"fmt"
	"strings"
)

// ---------- step constructors ----------

const (
	mtNew = iota
	mtUpdate
	mtCancel
	mtComplete
	mtVoucher
	mtVoucherResult
	mtRestart
	mtRestartExisting
)

var accept = valSpec{Accepted: true}

func sRegister(t string) nStep { return nStep{Kind: "register", Typ: t} }
func sOpen(d, to int) nStep {
	return nStep{Kind: "open", D: d, To: to, VType: "T1", VNode: 3, Base: 1, Sel: 2}
}
func sK(kind string, k chidTok) nStep { return nStep{Kind: kind, K: k} }
func sVoucher(k chidTok, node int) nStep {
	return nStep{Kind: "sendvoucher", K: k, VType: "T1", VNode: node}
}
func sResult(k chidTok, node int) nStep {
	return nStep{Kind: "sendresult", K: k, VType: "R1", VNode: node}
}
func sUpdate(k chidTok, vr valSpec) nStep { return nStep{Kind: "updatevalidation", K: k, Vr: vr} }
func sData(kd int, k chidTok, size uint64, index int64, unique bool) nStep {
	return nStep{Kind: "tdata", Kd: kd, K: k, Size: size, Index: index, Unique: unique}
}
func sCompleted(k chidTok, failed bool) nStep { return nStep{Kind: "tcompleted", K: k, Failed: failed} }
func sCrash(rereg bool) nStep                 { return nStep{Kind: "crash", Rereg: rereg} }

func newReq(tid uint64, pull bool) msgSpec {
	return msgSpec{IsReq: true, Type: mtNew, Tid: tid, Pull: pull, VType: "T1", VNode: 3, BaseCid: 1, Selector: 2}
}
func restartReq(tid uint64, pull bool) msgSpec {
	m := newReq(tid, pull)
	m.Type = mtRestart
	return m
}
func reqOf(t uint64, tid uint64) msgSpec { return msgSpec{IsReq: true, Type: t, Tid: tid} }
func respOf(t uint64, tid uint64, accepted, paused bool) msgSpec {
	return msgSpec{IsReq: false, Type: t, Tid: tid, Accepted: accepted, Pause: paused}
}
func sMReq(from int, m msgSpec, vals ...valSpec) nStep {
	return nStep{Kind: "mrequest", From: from, Msg: m, Vals: vals}
}
func sMResp(from int, m msgSpec) nStep { return nStep{Kind: "mresponse", From: from, Msg: m} }
func sTReq(k chidTok, m msgSpec, vals ...valSpec) nStep {
	return nStep{Kind: "trequest", K: k, Msg: m, Vals: vals}
}
func sTResp(k chidTok, m msgSpec) nStep { return nStep{Kind: "tresponse", K: k, Msg: m} }
func sRestartExisting(from int, k chidTok) nStep {
	return nStep{Kind: "mrestartexisting", From: from, Msg: msgSpec{IsReq: true, Type: mtRestartExisting, Restart: k}}
}

// ---------- recipes: drive a channel of a given role to a given status through real inputs ----------

// roles: cpush / cpull (created by self=1, counterparty 2), rpush / rpull (received from peer 2, tid 7)
func roleChid(role string, nth int) chidTok {
	switch role {
	case "cpush", "cpull":
		return chidTok{1, 2, 1000 + uint64(nth)}
	}
	return chidTok{2, 1, 7}
}
func roleInitiator(role string) bool { return role == "cpush" || role == "cpull" }
func rolePull(role string) bool      { return role == "cpull" || role == "rpull" }

// recipe returns the steps (after `register T1`) that bring the role's channel to the status;
// nil if the status is not reachable for the role without holding the cleanup handler
func recipe(role, status string, nth int) []nStep {
	k := roleChid(role, nth)
	var open []nStep
	switch role {
	case "cpush":
		open = []nStep{sOpen(0, 2)}
	case "cpull":
		open = []nStep{sOpen(1, 2)}
	case "rpush":
		open = []nStep{sMReq(2, newReq(7, false), accept)}
	case "rpull":
		open = []nStep{sMReq(2, newReq(7, true), accept)}
	}
	if roleInitiator(role) {
		acc := sMResp(2, respOf(mtNew, k.Tid, true, false))
		ti := sK("tinitiated", k)
		switch status {
		case "Requested":
			return open
		case "AwaitingAcceptance":
			return append(open, ti)
		case "Queued":
			return append(open, acc)
		case "Ongoing":
			return append(open, acc, ti)
		case "TransferFinished":
			return append(open, acc, ti, sCompleted(k, false))
		case "ResponderCompleted":
			return append(open, acc, ti, sMResp(2, respOf(mtComplete, k.Tid, true, false)))
		case "ResponderFinalizing":
			return append(open, acc, ti, sMResp(2, respOf(mtComplete, k.Tid, true, true)))
		case "ResponderFinalizingTransferFinished":
			return append(open, acc, ti, sMResp(2, respOf(mtComplete, k.Tid, true, true)), sCompleted(k, false))
		case "Completed":
			return append(open, acc, ti, sCompleted(k, false), sMResp(2, respOf(mtComplete, k.Tid, true, false)))
		case "Failed":
			return append(open, acc, ti, sK("closeerr", k))
		case "Cancelled":
			return append(open, acc, ti, sK("close", k))
		}
		return nil
	}
	ti := sK("tinitiated", k)
	switch status {
	case "Queued":
		return open
	case "Ongoing":
		return append(open, ti)
	case "Finalizing":
		o := append([]nStep(nil), open...)
		o[0].Vals = []valSpec{{Accepted: true, Fin: true}}
		return append(o, ti, sCompleted(k, false))
	case "Completed":
		return append(open, ti, sCompleted(k, false))
	case "Failed":
		return append(open, ti, sK("closeerr", k))
	case "Cancelled":
		return append(open, ti, sK("close", k))
	}
	return nil
}

var allRoles = []string{"cpush", "cpull", "rpush", "rpull"}
var initiatorStatuses = []string{"Requested", "AwaitingAcceptance", "Queued", "Ongoing", "TransferFinished", "ResponderCompleted", "ResponderFinalizing", "ResponderFinalizingTransferFinished", "Completed", "Failed", "Cancelled"}
var responderStatuses = []string{"Queued", "Ongoing", "Finalizing", "Completed", "Failed", "Cancelled"}

func statusesOf(role string) []string {
	if roleInitiator(role) {
		return initiatorStatuses
	}
	return responderStatuses
}

// every input kind aimed at channel k from the given sender (used by the terminal and frame products)
func allInputsFor(role string, k chidTok, from int) []nStep {
	tid := k.Tid
	var out []nStep
	for _, kind := range []string{"close", "closeerr", "pause", "resume", "restart", "topened", "tinitiated", "tcancelled", "tdisconnected", "tsenderr", "trecverr"} {
		out = append(out, sK(kind, k))
	}
	out = append(out, sVoucher(k, 5), sResult(k, 6),
		sUpdate(k, valSpec{Accepted: true}), sUpdate(k, valSpec{Accepted: true, HasRes: true, ResType: "R1", ResNode: 4, Limit: 50}),
		sUpdate(k, valSpec{Accepted: false, HasRes: true, ResType: "R1", ResNode: 4}),
		sCompleted(k, false), sCompleted(k, true))
	for kd := 0; kd < 3; kd++ {
		out = append(out, sData(kd, k, 10, 1, true), sData(kd, k, 10, 9, false))
	}
	reqs := []msgSpec{newReq(tid, rolePull(role)), restartReq(tid, rolePull(role)), reqOf(mtCancel, tid), reqOf(mtUpdate, tid),
		{IsReq: true, Type: mtUpdate, Tid: tid, Pause: true}, {IsReq: true, Type: mtVoucher, Tid: tid, VType: "T1", VNode: 5}}
	resps := []msgSpec{respOf(mtNew, tid, true, false), respOf(mtNew, tid, false, false), respOf(mtRestart, tid, true, false), respOf(mtCancel, tid, false, false),
		respOf(mtUpdate, tid, false, false), respOf(mtUpdate, tid, false, true), respOf(mtComplete, tid, true, false), respOf(mtComplete, tid, true, true),
		{Type: mtVoucherResult, Tid: tid, Accepted: true, VType: "R1", VNode: 4}}
	for _, m := range reqs {
		out = append(out, sMReq(from, m, accept), sTReq(k, m, accept))
	}
	for _, m := range resps {
		out = append(out, sMResp(from, m), sTResp(k, m))
	}
	out = append(out, sRestartExisting(from, k))
	return out
}

// ---------- suites ----------

type nodeSuite struct {
	name  string
	res   *suiteResult
	cases []nCaseOut
	id    int
}

func (s *nodeSuite) run(label string, steps []nStep, mon func(r *nodeRig, i int, st nStep, o nObs, before map[chidTok]string)) {
	s.id++
	var names []string
	for _, st := range steps {
		names = append(names, st.String())
	}
	full := label + " :: " + strings.Join(names, " ; ")
	s.res.CaseLabels = append(s.res.CaseLabels, full)
	if onlyCase != 0 && onlyCase != s.id {
		return
	}
	c := runNodeCase(s.res, s.id, full, steps, mon)
	s.cases = append(s.cases, c)
	for _, st := range c.steps {
		s.res.hist("input:" + st.Kind)
	}
	for _, o := range c.obs {
		s.res.hist(fmt.Sprintf("ret:%d", o.Ret))
	}
	s.res.hist(fmt.Sprintf("len:%02d", len(c.steps)))
	if len(c.steps) >= 2 {
		s.res.distinct(full)
	}
	if s.id%97 == 1 {
		s.res.sample(map[string]interface{}{"case": full, "returns": func() []int {
			var x []int
			for _, o := range c.obs {
				x = append(x, o.Ret)
			}
			return x
		}()})
	}
}

func (s *nodeSuite) finish(dir string, rule string, exhaustive bool) {
	s.res.Cases = len(s.cases)
	s.res.Rule = rule
	s.res.Exhaustive = exhaustive
	writeNCases(dir, s.name, s.cases)
	s.res.write(dir)
}

// nodeterminal (C02): every input kind against a channel driven to each terminal status, 4 roles,
// same process and after a process restart
func runNodeTerminal(dir string, seed uint64, tier string) {
	s := &nodeSuite{name: "nodeterminal", res: newResult("nodeterminal", seed, tier)}
	for _, role := range allRoles {
		for _, status := range []string{"Completed", "Failed", "Cancelled"} {
			for _, reopen := range []bool{false, true} {
				k := roleChid(role, 1)
				for _, sender := range []int{2, 4} {
					inputs := allInputsFor(role, k, sender)
					for idx, in := range inputs {
						if sender == 4 && !(in.Kind == "mrequest" || in.Kind == "mresponse" || in.Kind == "mrestartexisting") {
							continue
						}
						if tier != "thorough" && reopen && idx%3 != 0 {
							continue
						}
						steps := append([]nStep{sRegister("T1")}, recipe(role, status, 1)...)
						if reopen {
							steps = append(steps, sCrash(true))
						}
						steps = append(steps, in)
						s.run(fmt.Sprintf("terminal role=%s status=%s reopen=%v sender=%d", role, status, reopen, sender), steps, nil)
					}
				}
			}
		}
	}
	s.finish(dir, "enumerated product: 4 roles x {Completed, Failed, Cancelled} (reached through a real history) x {same process, after process restart} x every input kind (API calls, requests and responses over network and transport from the counterparty and from a stranger, transport callbacks); quick tier samples every third input after a restart", tier == "thorough")
}

// nodeflow: protocol-shaped generated walks over the whole input alphabet
func runNodeFlow(dir string, seed uint64, tier string) {
	s := &nodeSuite{name: "nodeflow", res: newResult("nodeflow", seed, tier)}
	r := newRng(seed)
	n := 150
	if tier == "thorough" {
		n = 3000
	}
	// every recipe is itself a case (all statuses for all roles)
	for _, role := range allRoles {
		for _, st := range statusesOf(role) {
			s.run("recipe role="+role+" status="+st, append([]nStep{sRegister("T1")}, recipe(role, st, 1)...), nil)
		}
	}
	for i := 0; i < n; i++ {
		s.run(fmt.Sprintf("walk %d", i), genWalk(r), nil)
	}
	s.finish(dir, "every status recipe for the four roles, plus generated walks: register, 1-3 channels opened locally or by incoming requests, then 5-25 inputs drawn from the whole alphabet (about 80% aimed at an existing channel in its proper role, the rest out of role, from a stranger, or for unknown ids) with random oracle answers (send/transport failures 10%, validator accept/reject/error/pause/limit/finalization); one splitmix64 stream", false)
}

func randVal(r *rng) valSpec {
	v := valSpec{Accepted: !r.chance(20), Err: r.chance(8), Force: r.chance(12), Fin: r.chance(20)}
	if r.chance(35) {
		v.Limit = uint64(r.intn(60))
	}
	if r.chance(40) {
		v.HasRes, v.ResType, v.ResNode = true, "R1", r.intn(4) // node 0 = typed voucher with a nil node
	}
	return v
}

func randOracle(r *rng, st *nStep) {
	for i := 0; i < 3; i++ {
		st.Sendf = append(st.Sendf, !r.chance(10))
		st.Trf = append(st.Trf, !r.chance(10))
	}
	st.Vals = append(st.Vals, randVal(r), randVal(r))
}

type walkChan struct {
	k    chidTok
	role string
}

func genWalk(r *rng) []nStep {
	steps := []nStep{}
	if !r.chance(10) {
		steps = append(steps, sRegister("T1"))
	}
	var chans []walkChan
	opens := 0
	addChan := func() {
		role := allRoles[r.intn(4)]
		peerTok := 2 + r.intn(2)
		switch role {
		case "cpush", "cpull":
			opens++
			st := sOpen(map[string]int{"cpush": 0, "cpull": 1}[role], peerTok)
			randOracle(r, &st)
			steps = append(steps, st)
			chans = append(chans, walkChan{chidTok{1, peerTok, 1000 + uint64(opens)}, role})
		default:
			tid := uint64(1 + r.intn(3))
			m := newReq(tid, role == "rpull")
			if r.chance(8) {
				m.VType = "TX"
			}
			if r.chance(5) {
				m.VNode = 0
			}
			if r.chance(5) {
				m.Selector = 0
			}
			st := sMReq(peerTok, m)
			if r.chance(30) {
				st = sTReq(chidTok{peerTok, 1, tid}, m)
			}
			randOracle(r, &st)
			if r.chance(70) {
				st.Vals[0] = valSpec{Accepted: true, Fin: r.chance(25), Limit: uint64(r.intn(2) * r.intn(80))}
			}
			steps = append(steps, st)
			chans = append(chans, walkChan{chidTok{peerTok, 1, tid}, role})
		}
	}
	for i := 0; i < 1+r.intn(3); i++ {
		addChan()
	}
	n := 5 + r.intn(21)
	pos := map[chidTok]int64{}
	for i := 0; i < n; i++ {
		if r.chance(5) {
			addChan()
			continue
		}
		if r.chance(4) {
			steps = append(steps, sCrash(!r.chance(30)))
			continue
		}
		wc := chans[r.intn(len(chans))]
		k := wc.k
		role := wc.role
		if r.chance(8) { // unknown channel
			k = chidTok{1 + r.intn(4), 1 + r.intn(4), uint64(40 + r.intn(3))}
		}
		other := k.Resp
		if !roleInitiator(role) {
			other = k.Init
		}
		from := other
		if r.chance(10) {
			from = 4 // stranger
		}
		if r.chance(3) {
			from = 1 // self
		}
		var st nStep
		initiator := roleInitiator(role)
		if r.chance(12) {
			initiator = !initiator // out-of-role input
		}
		x := r.intn(100)
		switch {
		case x < 22: // data
			kd := r.intn(3)
			if r.chance(70) {
				if rolePull(role) == initiator { // self receives
					kd = 2
				} else {
					kd = r.intn(2)
				}
			}
			if r.chance(75) {
				pos[k]++
			} else if pos[k] > 1 {
				pos[k] = int64(r.intn(int(pos[k]))) + 1
			}
			st = sData(kd, k, uint64(r.intn(40)), pos[k], !r.chance(15))
		case x < 34: // lifecycle callbacks
			st = []nStep{sK("topened", k), sK("tinitiated", k), sCompleted(k, false), sCompleted(k, r.chance(30)), sK("tcancelled", k), sK("tdisconnected", k), sK("tsenderr", k), sK("trecverr", k)}[r.intn(8)]
		case x < 52: // API
			st = []nStep{sK("pause", k), sK("resume", k), sK("restart", k), sK("close", k), sK("closeerr", k), sVoucher(k, 4+r.intn(3)), sResult(k, 4+r.intn(3)), sUpdate(k, randVal(r)), sUpdate(k, valSpec{Accepted: true, Limit: uint64(r.intn(100))})}[r.intn(9)]
			if r.chance(60) {
				if initiator {
					st = []nStep{sK("pause", k), sK("resume", k), sK("restart", k), sVoucher(k, 4+r.intn(3)), sK("close", k)}[r.intn(5)]
				} else {
					st = []nStep{sK("pause", k), sK("resume", k), sK("restart", k), sResult(k, 4+r.intn(3)), sUpdate(k, randVal(r)), sUpdate(k, valSpec{Accepted: true, Limit: uint64(r.intn(100))})}[r.intn(6)]
				}
			}
		case x < 78: // messages
			tid := k.Tid
			if initiator { // responses arrive at the initiator
				m := []msgSpec{respOf(mtNew, tid, true, false), respOf(mtNew, tid, true, true), respOf(mtNew, tid, false, false), respOf(mtRestart, tid, true, false), respOf(mtRestart, tid, false, false),
					respOf(mtUpdate, tid, false, true), respOf(mtUpdate, tid, false, false), respOf(mtComplete, tid, true, false), respOf(mtComplete, tid, true, true), respOf(mtCancel, tid, false, false),
					{Type: mtVoucherResult, Tid: tid, Accepted: true, VType: "R1", VNode: 4}, {Type: mtVoucherResult, Tid: tid, Accepted: false, VType: "R1", VNode: 4}, {Type: mtVoucherResult, Tid: tid, Accepted: true, VType: "R1", VNode: 0}}[r.intn(13)]
				if r.chance(30) {
					st = sTResp(k, m)
				} else {
					st = sMResp(from, m)
				}
			} else {
				m := []msgSpec{restartReq(tid, rolePull(role)), restartReq(tid, rolePull(role)), newReq(tid, rolePull(role)), reqOf(mtCancel, tid), reqOf(mtUpdate, tid), {IsReq: true, Type: mtUpdate, Tid: tid, Pause: true},
					{IsReq: true, Type: mtVoucher, Tid: tid, VType: "T1", VNode: 5}, {IsReq: true, Type: mtVoucher, Tid: tid, VType: "T1", VNode: 0}}[r.intn(8)]
				if m.Type == mtRestart && r.chance(25) { // single-field mutations of the restart request
					switch r.intn(4) {
					case 0:
						m.BaseCid = 2
					case 1:
						m.VType = "T2"
					case 2:
						m.VNode = 9
					case 3:
						m.VNode = 0
					}
				}
				if r.chance(30) {
					st = sTReq(k, m)
				} else {
					st = sMReq(from, m)
				}
			}
		case x < 84:
			st = sRestartExisting(from, k)
		default:
			st = sRegister([]string{"T1", "T2"}[r.intn(2)])
		}
		randOracle(r, &st)
		steps = append(steps, st)
	}
	return steps
}
