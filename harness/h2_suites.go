package main

import (
	"bytes"
	"context"
	"fmt"
	"os"
	"runtime"
	"sort"
	"strings"
	"sync"
	"sync/atomic"
	"time"

	"github.com/ipfs/go-datastore"

	datatransfer "github.com/filecoin-project/go-data-transfer/v2"
	"github.com/filecoin-project/go-data-transfer/v2/channels"
	"github.com/filecoin-project/go-data-transfer/v2/impl"
)

// ---------- step constructors ----------

const (
	mtNew = iota
	mtUpdate
	mtCancel
	mtComplete
	mtVoucher
	mtVoucherResult
	mtRestart
	mtRestartExisting
)

var accept = valSpec{Accepted: true}

func sRegister(t string) nStep { return nStep{Kind: "register", Typ: t} }
func sOpen(d, to int) nStep {
	return nStep{Kind: "open", D: d, To: to, VType: "T1", VNode: 3, Base: 1, Sel: 2}
}
func sK(kind string, k chidTok) nStep { return nStep{Kind: kind, K: k} }
func sVoucher(k chidTok, node int) nStep {
	return nStep{Kind: "sendvoucher", K: k, VType: "T1", VNode: node}
}
func sResult(k chidTok, node int) nStep {
	return nStep{Kind: "sendresult", K: k, VType: "R1", VNode: node}
}
func sUpdate(k chidTok, vr valSpec) nStep { return nStep{Kind: "updatevalidation", K: k, Vr: vr} }
func sData(kd int, k chidTok, size uint64, index int64, unique bool) nStep {
	return nStep{Kind: "tdata", Kd: kd, K: k, Size: size, Index: index, Unique: unique}
}
func sCompleted(k chidTok, failed bool) nStep { return nStep{Kind: "tcompleted", K: k, Failed: failed} }
func sCrash(rereg bool) nStep                 { return nStep{Kind: "crash", Rereg: rereg} }

func newReq(tid uint64, pull bool) msgSpec {
	return msgSpec{IsReq: true, Type: mtNew, Tid: tid, Pull: pull, VType: "T1", VNode: 3, BaseCid: 1, Selector: 2}
}
func restartReq(tid uint64, pull bool) msgSpec {
	m := newReq(tid, pull)
	m.Type = mtRestart
	return m
}
func reqOf(t uint64, tid uint64) msgSpec { return msgSpec{IsReq: true, Type: t, Tid: tid} }
func respOf(t uint64, tid uint64, accepted, paused bool) msgSpec {
	return msgSpec{IsReq: false, Type: t, Tid: tid, Accepted: accepted, Pause: paused}
}
func sMReq(from int, m msgSpec, vals ...valSpec) nStep {
	return nStep{Kind: "mrequest", From: from, Msg: m, Vals: vals}
}
func sMResp(from int, m msgSpec) nStep { return nStep{Kind: "mresponse", From: from, Msg: m} }
func sTReq(k chidTok, m msgSpec, vals ...valSpec) nStep {
	return nStep{Kind: "trequest", K: k, Msg: m, Vals: vals}
}
func sTResp(k chidTok, m msgSpec) nStep { return nStep{Kind: "tresponse", K: k, Msg: m} }
func sRestartExisting(from int, k chidTok) nStep {
	return nStep{Kind: "mrestartexisting", From: from, Msg: msgSpec{IsReq: true, Type: mtRestartExisting, Restart: k}}
}

// ---------- recipes: drive a channel of a given role to a given status through real inputs ----------

// roles: cpush / cpull (created by self=1, counterparty 2), rpush / rpull (received from peer 2, tid 7)
func roleChid(role string, nth int) chidTok {
	switch role {
	case "cpush", "cpull":
		return chidTok{1, 2, 1000 + uint64(nth)}
	}
	return chidTok{2, 1, 7}
}
func roleInitiator(role string) bool { return role == "cpush" || role == "cpull" }
func rolePull(role string) bool      { return role == "cpull" || role == "rpull" }

// recipe returns the steps (after `register T1`) that bring the role's channel to the status;
// nil if the status is not reachable for the role without holding the cleanup handler
func recipe(role, status string, nth int) []nStep {
	k := roleChid(role, nth)
	var open []nStep
	switch role {
	case "cpush":
		open = []nStep{sOpen(0, 2)}
	case "cpull":
		open = []nStep{sOpen(1, 2)}
	case "rpush":
		open = []nStep{sMReq(2, newReq(7, false), accept)}
	case "rpull":
		open = []nStep{sMReq(2, newReq(7, true), accept)}
	}
	if roleInitiator(role) {
		acc := sMResp(2, respOf(mtNew, k.Tid, true, false))
		ti := sK("tinitiated", k)
		switch status {
		case "Requested":
			return open
		case "AwaitingAcceptance":
			return append(open, ti)
		case "Queued":
			return append(open, acc)
		case "Ongoing":
			return append(open, acc, ti)
		case "TransferFinished":
			return append(open, acc, ti, sCompleted(k, false))
		case "ResponderCompleted":
			return append(open, acc, ti, sMResp(2, respOf(mtComplete, k.Tid, true, false)))
		case "ResponderFinalizing":
			return append(open, acc, ti, sMResp(2, respOf(mtComplete, k.Tid, true, true)))
		case "ResponderFinalizingTransferFinished":
			return append(open, acc, ti, sMResp(2, respOf(mtComplete, k.Tid, true, true)), sCompleted(k, false))
		case "Completed":
			return append(open, acc, ti, sCompleted(k, false), sMResp(2, respOf(mtComplete, k.Tid, true, false)))
		case "Failed":
			return append(open, acc, ti, sK("closeerr", k))
		case "Cancelled":
			return append(open, acc, ti, sK("close", k))
		}
		return nil
	}
	ti := sK("tinitiated", k)
	switch status {
	case "Queued":
		return open
	case "Ongoing":
		return append(open, ti)
	case "Finalizing":
		o := append([]nStep(nil), open...)
		o[0].Vals = []valSpec{{Accepted: true, Fin: true}}
		return append(o, ti, sCompleted(k, false))
	case "Completed":
		return append(open, ti, sCompleted(k, false))
	case "Failed":
		return append(open, ti, sK("closeerr", k))
	case "Cancelled":
		return append(open, ti, sK("close", k))
	}
	return nil
}

var allRoles = []string{"cpush", "cpull", "rpush", "rpull"}
var initiatorStatuses = []string{"Requested", "AwaitingAcceptance", "Queued", "Ongoing", "TransferFinished", "ResponderCompleted", "ResponderFinalizing", "ResponderFinalizingTransferFinished", "Completed", "Failed", "Cancelled"}
var responderStatuses = []string{"Queued", "Ongoing", "Finalizing", "Completed", "Failed", "Cancelled"}

func statusesOf(role string) []string {
	if roleInitiator(role) {
		return initiatorStatuses
	}
	return responderStatuses
}

// every input kind aimed at channel k from the given sender (used by the terminal and frame products)
func allInputsFor(role string, k chidTok, from int) []nStep {
	tid := k.Tid
	var out []nStep
	for _, kind := range []string{"close", "closeerr", "pause", "resume", "restart", "topened", "tinitiated", "tcancelled", "tdisconnected", "tsenderr", "trecverr"} {
		out = append(out, sK(kind, k))
	}
	out = append(out, sVoucher(k, 5), sResult(k, 6),
		sUpdate(k, valSpec{Accepted: true}), sUpdate(k, valSpec{Accepted: true, HasRes: true, ResType: "R1", ResNode: 4, Limit: 50}),
		sUpdate(k, valSpec{Accepted: false, HasRes: true, ResType: "R1", ResNode: 4}),
		sCompleted(k, false), sCompleted(k, true))
	for kd := 0; kd < 3; kd++ {
		out = append(out, sData(kd, k, 10, 1, true), sData(kd, k, 10, 9, false))
	}
	reqs := []msgSpec{newReq(tid, rolePull(role)), restartReq(tid, rolePull(role)), reqOf(mtCancel, tid), reqOf(mtUpdate, tid),
		{IsReq: true, Type: mtUpdate, Tid: tid, Pause: true}, {IsReq: true, Type: mtVoucher, Tid: tid, VType: "T1", VNode: 5}}
	resps := []msgSpec{respOf(mtNew, tid, true, false), respOf(mtNew, tid, false, false), respOf(mtRestart, tid, true, false), respOf(mtCancel, tid, false, false),
		respOf(mtUpdate, tid, false, false), respOf(mtUpdate, tid, false, true), respOf(mtComplete, tid, true, false), respOf(mtComplete, tid, true, true),
		{Type: mtVoucherResult, Tid: tid, Accepted: true, VType: "R1", VNode: 4}}
	// the transport hands over requests only for channels the remote peer initiated and responses only
	// for channels self initiated (C16); the network path accepts anything from anybody
	for _, m := range reqs {
		out = append(out, sMReq(from, m, accept))
		if !roleInitiator(role) {
			out = append(out, sTReq(k, m, accept))
		}
	}
	for _, m := range resps {
		out = append(out, sMResp(from, m))
		if roleInitiator(role) {
			out = append(out, sTResp(k, m))
		}
	}
	out = append(out, sRestartExisting(from, k))
	return out
}

// ---------- suites ----------

type nodeSuite struct {
	name  string
	res   *suiteResult
	cases []nCaseOut
	id    int
}

func (s *nodeSuite) run(label string, steps []nStep, mon func(r *nodeRig, i int, st nStep, o nObs, before, after map[chidTok]chanSnap)) {
	s.id++
	var names []string
	for _, st := range steps {
		names = append(names, st.String())
	}
	full := label + " :: " + strings.Join(names, " ; ")
	s.res.CaseLabels = append(s.res.CaseLabels, full)
	if onlyCase != 0 && onlyCase != s.id {
		return
	}
	t0 := time.Now()
	c := runNodeCase(s.res, s.id, full, steps, mon)
	if d := time.Since(t0); d > 2*time.Second {
		fmt.Fprintf(os.Stderr, "slow case %d (%.1fs): %s\n", s.id, d.Seconds(), full)
	}
	s.cases = append(s.cases, c)
	for _, st := range c.steps {
		s.res.hist("input:" + st.Kind)
	}
	for _, o := range c.obs {
		s.res.hist(fmt.Sprintf("ret:%d", o.Ret))
	}
	s.res.hist(fmt.Sprintf("len:%02d", len(c.steps)))
	if len(c.steps) >= 2 {
		s.res.distinct(full)
	}
	if s.id%97 == 1 {
		s.res.sample(map[string]interface{}{"case": full, "returns": func() []int {
			var x []int
			for _, o := range c.obs {
				x = append(x, o.Ret)
			}
			return x
		}()})
	}
}

func (s *nodeSuite) finish(dir string, rule string, exhaustive bool) {
	s.res.Cases = len(s.cases)
	s.res.Rule = rule
	s.res.Exhaustive = exhaustive
	writeNCases(dir, s.name, s.cases)
	s.res.write(dir)
}

// nodeterminal (C02): every input kind against a channel driven to each terminal status, 4 roles,
// same process and after a process restart
func runNodeTerminal(dir string, seed uint64, tier string) {
	s := &nodeSuite{name: "nodeterminal", res: newResult("nodeterminal", seed, tier)}
	slowSubscriberProbe(s.res)
	for _, role := range allRoles {
		for _, status := range []string{"Completed", "Failed", "Cancelled"} {
			for _, reopen := range []bool{false, true} {
				k := roleChid(role, 1)
				for _, sender := range []int{2, 4} {
					inputs := allInputsFor(role, k, sender)
					for idx, in := range inputs {
						if sender == 4 && !(in.Kind == "mrequest" || in.Kind == "mresponse" || in.Kind == "mrestartexisting") {
							continue
						}
						if tier != "thorough" && reopen && idx%3 != 0 {
							continue
						}
						steps := append([]nStep{sRegister("T1")}, recipe(role, status, 1)...)
						if reopen {
							steps = append(steps, sCrash(true))
						}
						steps = append(steps, in)
						s.run(fmt.Sprintf("terminal role=%s status=%s reopen=%v sender=%d", role, status, reopen, sender), steps, nil)
					}
				}
			}
		}
	}
	s.finish(dir, "enumerated product: 4 roles x {Completed, Failed, Cancelled} (reached through a real history) x {same process, after process restart} x every input kind (API calls, requests and responses over network and transport from the counterparty and from a stranger, transport callbacks); quick tier samples every third input after a restart", tier == "thorough")
}

// nodeflow: protocol-shaped generated walks over the whole input alphabet
func runNodeFlow(dir string, seed uint64, tier string) {
	s := &nodeSuite{name: "nodeflow", res: newResult("nodeflow", seed, tier)}
	r := newRng(seed)
	n := 150
	if tier == "thorough" {
		n = 3000
	}
	// every recipe is itself a case (all statuses for all roles)
	for _, role := range allRoles {
		for _, st := range statusesOf(role) {
			s.run("recipe role="+role+" status="+st, append([]nStep{sRegister("T1")}, recipe(role, st, 1)...), nil)
		}
	}
	for i := 0; i < n; i++ {
		s.run(fmt.Sprintf("walk %d", i), genWalk(r), nil)
	}
	s.finish(dir, "every status recipe for the four roles, plus generated walks: register, 1-3 channels opened locally or by incoming requests, then 5-25 inputs drawn from the whole alphabet (about 80% aimed at an existing channel in its proper role, the rest out of role, from a stranger, or for unknown ids) with random oracle answers (send/transport failures 10%, validator accept/reject/error/pause/limit/finalization); one splitmix64 stream", false)
}

func randVal(r *rng) valSpec {
	v := valSpec{Accepted: !r.chance(20), Err: r.chance(8), Force: r.chance(12), Fin: r.chance(20)}
	if r.chance(35) {
		v.Limit = uint64(r.intn(60))
	}
	if r.chance(40) {
		v.HasRes, v.ResType, v.ResNode = true, "R1", r.intn(4) // node 0 = typed voucher with a nil node
	}
	return v
}

func randOracle(r *rng, st *nStep) {
	for i := 0; i < 3; i++ {
		st.Sendf = append(st.Sendf, !r.chance(10))
		st.Trf = append(st.Trf, !r.chance(10))
	}
	st.Vals = append(st.Vals, randVal(r), randVal(r))
}

type walkChan struct {
	k    chidTok
	role string
}

func genWalk(r *rng) []nStep {
	steps := []nStep{}
	if !r.chance(10) {
		steps = append(steps, sRegister("T1"))
	}
	var chans []walkChan
	opens := 0
	addChan := func() {
		role := allRoles[r.intn(4)]
		peerTok := 2 + r.intn(2)
		switch role {
		case "cpush", "cpull":
			opens++
			st := sOpen(map[string]int{"cpush": 0, "cpull": 1}[role], peerTok)
			randOracle(r, &st)
			steps = append(steps, st)
			chans = append(chans, walkChan{chidTok{1, peerTok, 1000 + uint64(opens)}, role})
		default:
			tid := uint64(1 + r.intn(3))
			m := newReq(tid, role == "rpull")
			if r.chance(8) {
				m.VType = "TX"
			}
			if r.chance(5) {
				m.VNode = 0
			}
			if r.chance(5) {
				m.Selector = 0
			}
			st := sMReq(peerTok, m)
			if r.chance(30) {
				st = sTReq(chidTok{peerTok, 1, tid}, m)
			}
			randOracle(r, &st)
			if r.chance(70) {
				st.Vals[0] = valSpec{Accepted: true, Fin: r.chance(25), Limit: uint64(r.intn(2) * r.intn(80))}
			}
			steps = append(steps, st)
			chans = append(chans, walkChan{chidTok{peerTok, 1, tid}, role})
		}
	}
	for i := 0; i < 1+r.intn(3); i++ {
		addChan()
	}
	n := 5 + r.intn(21)
	pos := map[chidTok]int64{}
	for i := 0; i < n; i++ {
		if r.chance(5) {
			addChan()
			continue
		}
		if r.chance(4) {
			steps = append(steps, sCrash(!r.chance(30)))
			continue
		}
		wc := chans[r.intn(len(chans))]
		k := wc.k
		role := wc.role
		if r.chance(8) { // unknown channel
			k = chidTok{1 + r.intn(4), 1 + r.intn(4), uint64(40 + r.intn(3))}
		}
		other := k.Resp
		if !roleInitiator(role) {
			other = k.Init
		}
		from := other
		if r.chance(10) {
			from = 4 // stranger
		}
		if r.chance(3) {
			from = 1 // self
		}
		var st nStep
		initiator := roleInitiator(role)
		if r.chance(12) {
			initiator = !initiator // out-of-role input
		}
		x := r.intn(100)
		switch {
		case x < 22: // data
			kd := r.intn(3)
			if r.chance(70) {
				if rolePull(role) == initiator { // self receives
					kd = 2
				} else {
					kd = r.intn(2)
				}
			}
			if r.chance(75) {
				pos[k]++
			} else if pos[k] > 1 {
				pos[k] = int64(r.intn(int(pos[k]))) + 1
			}
			st = sData(kd, k, uint64(r.intn(40)), pos[k], !r.chance(15))
		case x < 34: // lifecycle callbacks
			st = []nStep{sK("topened", k), sK("tinitiated", k), sCompleted(k, false), sCompleted(k, r.chance(30)), sK("tcancelled", k), sK("tdisconnected", k), sK("tsenderr", k), sK("trecverr", k)}[r.intn(8)]
		case x < 52: // API
			st = []nStep{sK("pause", k), sK("resume", k), sK("restart", k), sK("close", k), sK("closeerr", k), sVoucher(k, 4+r.intn(3)), sResult(k, 4+r.intn(3)), sUpdate(k, randVal(r)), sUpdate(k, valSpec{Accepted: true, Limit: uint64(r.intn(100))})}[r.intn(9)]
			if r.chance(60) {
				if initiator {
					st = []nStep{sK("pause", k), sK("resume", k), sK("restart", k), sVoucher(k, 4+r.intn(3)), sK("close", k)}[r.intn(5)]
				} else {
					st = []nStep{sK("pause", k), sK("resume", k), sK("restart", k), sResult(k, 4+r.intn(3)), sUpdate(k, randVal(r)), sUpdate(k, valSpec{Accepted: true, Limit: uint64(r.intn(100))})}[r.intn(6)]
				}
			}
		case x < 78: // messages
			tid := k.Tid
			if initiator { // responses arrive at the initiator
				m := []msgSpec{respOf(mtNew, tid, true, false), respOf(mtNew, tid, true, true), respOf(mtNew, tid, false, false), respOf(mtRestart, tid, true, false), respOf(mtRestart, tid, false, false),
					respOf(mtUpdate, tid, false, true), respOf(mtUpdate, tid, false, false), respOf(mtComplete, tid, true, false), respOf(mtComplete, tid, true, true), respOf(mtCancel, tid, false, false),
					{Type: mtVoucherResult, Tid: tid, Accepted: true, VType: "R1", VNode: 4}, {Type: mtVoucherResult, Tid: tid, Accepted: false, VType: "R1", VNode: 4}, {Type: mtVoucherResult, Tid: tid, Accepted: true, VType: "R1", VNode: 0}}[r.intn(13)]
				if r.chance(30) {
					st = sTResp(k, m)
				} else {
					st = sMResp(from, m)
				}
			} else {
				m := []msgSpec{restartReq(tid, rolePull(role)), restartReq(tid, rolePull(role)), newReq(tid, rolePull(role)), reqOf(mtCancel, tid), reqOf(mtUpdate, tid), {IsReq: true, Type: mtUpdate, Tid: tid, Pause: true},
					{IsReq: true, Type: mtVoucher, Tid: tid, VType: "T1", VNode: 5}, {IsReq: true, Type: mtVoucher, Tid: tid, VType: "T1", VNode: 0}}[r.intn(8)]
				if m.Type == mtRestart && r.chance(25) { // single-field mutations of the restart request
					switch r.intn(4) {
					case 0:
						m.BaseCid = 2
					case 1:
						m.VType = "T2"
					case 2:
						m.VNode = 9
					case 3:
						m.VNode = 0
					}
				}
				if r.chance(30) {
					st = sTReq(k, m)
				} else {
					st = sMReq(from, m)
				}
			}
		case x < 84:
			st = sRestartExisting(from, k)
		default:
			st = sRegister([]string{"T1", "T2"}[r.intn(2)])
		}
		// contract of the transport (C16): requests arrive with the remote peer as initiator and self as
		// responder, responses with self as initiator and the remote peer as responder
		if st.Kind == "trequest" && (st.K.Resp != 1 || st.K.Init == 1) {
			st.K = chidTok{2 + r.intn(3), 1, st.K.Tid}
		}
		if st.Kind == "tresponse" && (st.K.Init != 1 || st.K.Resp == 1) {
			st.K = chidTok{1, 2 + r.intn(3), st.K.Tid}
		}
		randOracle(r, &st)
		steps = append(steps, st)
	}
	return steps
}

// ---------- nodevalidate (C04): incoming new/restart requests and validation updates x validator outcomes ----------

func valGrid(progress uint64) []valSpec {
	var out []valSpec
	for _, e := range []bool{false, true} {
		for _, a := range []bool{true, false} {
			for _, hr := range []int{0, 1, 2} {
				for _, f := range []bool{false, true} {
					for _, l := range []uint64{0, progress / 2, progress, progress + 10} {
						for _, fin := range []bool{false, true} {
							v := valSpec{Err: e, Accepted: a, Force: f, Limit: l, Fin: fin}
							if hr == 1 {
								v.HasRes, v.ResType, v.ResNode = true, "R1", 4
							}
							if hr == 2 {
								v.HasRes, v.ResType, v.ResNode = true, "R1", 0
							}
							out = append(out, v)
						}
					}
				}
			}
		}
	}
	return out
}

func runNodeValidate(dir string, seed uint64, tier string) {
	s := &nodeSuite{name: "nodevalidate", res: newResult("nodevalidate", seed, tier)}
	stride := 5
	if tier == "thorough" {
		stride = 1
	}
	grid := valGrid(10)
	n := 0
	for _, restart := range []bool{false, true} {
		for _, pull := range []bool{false, true} {
			for _, transportPath := range []bool{false, true} {
				for gi, v := range grid {
					n++
					if (gi+n)%stride != 0 {
						continue
					}
					steps := []nStep{sRegister("T1")}
					k := chidTok{2, 1, 7}
					m := newReq(7, pull)
					if restart {
						// an existing channel with 10 bytes of progress in its limited direction
						steps = append(steps, sMReq(2, newReq(7, pull), accept), sK("tinitiated", k))
						if pull {
							steps = append(steps, sData(0, k, 10, 1, true))
						} else {
							steps = append(steps, sData(2, k, 10, 1, true))
						}
						m = restartReq(7, pull)
					}
					if transportPath {
						steps = append(steps, sTReq(k, m, v))
					} else {
						steps = append(steps, sMReq(2, m, v))
					}
					// one more step to see that the node is still alive and what state it is in
					if pull {
						steps = append(steps, sData(0, k, 3, 2, true))
					} else {
						steps = append(steps, sData(2, k, 3, 2, true))
					}
					s.run(fmt.Sprintf("validate restart=%v pull=%v transport=%v", restart, pull, transportPath), steps, nil)
				}
				// malformed / unregistered requests
				for _, reg := range []bool{true, false} {
					for _, vnode := range []int{3, 0} {
						for _, sel := range []int{2, 0} {
							for _, v := range []valSpec{accept, {Accepted: false}, {Accepted: true, Err: true}} {
								if reg && vnode == 3 && sel == 2 {
									continue
								}
								steps := []nStep{}
								if reg {
									steps = append(steps, sRegister("T1"))
								} else {
									steps = append(steps, sRegister("T2"))
								}
								k := chidTok{2, 1, 7}
								m := newReq(7, pull)
								if restart {
									steps = append(steps, sRegister("T1"), sMReq(2, newReq(7, pull), accept), sK("tinitiated", k))
									if !reg {
										steps = append(steps, sCrash(false)) // the registry is empty after the restart
									}
									m = restartReq(7, pull)
								}
								m.VNode, m.Selector = vnode, sel
								if transportPath {
									steps = append(steps, sTReq(k, m, v))
								} else {
									steps = append(steps, sMReq(2, m, v))
								}
								steps = append(steps, sK("tdisconnected", k))
								s.run(fmt.Sprintf("malformed restart=%v pull=%v transport=%v registered=%v", restart, pull, transportPath, reg), steps, nil)
							}
						}
					}
				}
			}
		}
	}
	// UpdateValidationStatus in each responder situation
	type sit struct {
		name  string
		steps []nStep
		k     chidTok
	}
	k := chidTok{2, 1, 7}
	for _, pull := range []bool{false, true} {
		kd := 2
		if pull {
			kd = 0
		}
		sits := []sit{
			{"queued", []nStep{sMReq(2, newReq(7, pull), accept)}, k},
			{"ongoing", []nStep{sMReq(2, newReq(7, pull), accept), sK("tinitiated", k), sData(kd, k, 10, 1, true)}, k},
			{"limit-paused", []nStep{sMReq(2, newReq(7, pull), valSpec{Accepted: true, Limit: 10}), sK("tinitiated", k), sData(kd, k, 10, 1, true)}, k},
			{"force-paused", []nStep{sMReq(2, newReq(7, pull), valSpec{Accepted: true, Force: true}), sK("tinitiated", k)}, k},
			{"finalizing", []nStep{sMReq(2, newReq(7, pull), valSpec{Accepted: true, Fin: true}), sK("tinitiated", k), sData(kd, k, 10, 1, true), sCompleted(k, false)}, k},
			{"completed", []nStep{sMReq(2, newReq(7, pull), accept), sK("tinitiated", k), sCompleted(k, false)}, k},
			{"unknown", nil, chidTok{2, 1, 99}},
			{"after-restart-unregistered", []nStep{sMReq(2, newReq(7, pull), accept), sK("tinitiated", k), sData(kd, k, 10, 1, true), sCrash(false)}, k},
			{"initiator-side", []nStep{sOpen(0, 2)}, chidTok{1, 2, 1001}},
		}
		for _, st := range sits {
			for gi, v := range grid {
				if v.Err {
					continue // UpdateValidationStatus takes a result only
				}
				// a responder awaiting finalization meets every accepting update that still requires finalization
				keep := st.name == "finalizing" && v.Accepted && v.Fin
				if (gi+len(st.name))%stride != 0 && !keep {
					continue
				}
				for _, fails := range [][]bool{nil, {false}} {
					if fails != nil && gi%4 != 0 {
						continue
					}
					steps := append([]nStep{sRegister("T1")}, st.steps...)
					u := sUpdate(st.k, v)
					u.Sendf = fails
					steps = append(steps, u, sData(kd, st.k, 5, 2, true))
					s.run(fmt.Sprintf("update pull=%v situation=%s sendfails=%v", pull, st.name, fails != nil), steps, nil)
				}
			}
		}
	}
	// a responder awaiting finalization is told by a validation update that finalization is no longer required but
	// that the request stays paused (ForcePause): it is still in Finalizing, still reports itself paused, the voucher
	// result it sends next is a paused Complete, and only a releasing update lets it complete
	for _, pull := range []bool{false, true} {
		kd := 2
		if pull {
			kd = 0
		}
		pre := []nStep{sRegister("T1"), sMReq(2, newReq(7, pull), valSpec{Accepted: true, Fin: true}), sK("tinitiated", k), sData(kd, k, 10, 1, true), sCompleted(k, false)}
		held := sUpdate(k, valSpec{Accepted: true, Fin: false, Force: true})
		s.run(fmt.Sprintf("finalizing, held without finalization, voucher result pull=%v", pull), append(append([]nStep{}, pre...), held, sResult(k, 9)), nil)
		s.run(fmt.Sprintf("finalizing, held without finalization, then released pull=%v", pull), append(append([]nStep{}, pre...), held, sUpdate(k, valSpec{Accepted: true}), sData(kd, k, 5, 2, true)), nil)
		s.run(fmt.Sprintf("finalizing, held without finalization, held again pull=%v", pull), append(append([]nStep{}, pre...), held, sUpdate(k, valSpec{Accepted: true, Force: true}), sResult(k, 9)), nil)
	}
	s.finish(dir, fmt.Sprintf("enumerated: {new, restart} x {push, pull} x {network, transport path} x validator outcome grid (error x accepted x voucher result {none, typed, typed-with-nil-node} x ForcePause x DataLimit {0, below, =, above progress} x RequiresFinalization = 192, stride %d) ; unregistered type / missing voucher / missing selector x the same; UpdateValidationStatus in 9 situations (queued, ongoing, limit-paused, force-paused, finalizing, completed, unknown channel, after restart with nothing registered, initiator side) x the grid; every case ends with one more input to observe that the node is alive", stride), tier == "thorough")
}

// ---------- noderestart (C10, C05): restart paths in every role, status, with progress, second vouchers, crashes ----------

func runNodeRestart(dir string, seed uint64, tier string) {
	s := &nodeSuite{name: "noderestart", res: newResult("noderestart", seed, tier)}
	for _, role := range allRoles {
		k := roleChid(role, 1)
		other := 2
		for _, status := range statusesOf(role) {
			base := recipe(role, status, 1)
			if base == nil || status == "Completed" || status == "Failed" || status == "Cancelled" {
				continue
			}
			for _, extra := range []string{"none", "voucher", "progress"} {
				if tier != "thorough" && extra != "none" && !(status == "Ongoing" || status == "Queued" || status == "Requested") {
					continue
				}
				for _, crash := range []string{"no", "rereg", "noreg"} {
					if tier != "thorough" && crash == "noreg" && extra != "none" {
						continue
					}
					pre := append([]nStep{sRegister("T1")}, base...)
					switch extra {
					case "voucher":
						// the later voucher has another (registered) type than the opening one: a restart is still
						// decided by the validator of the opening voucher's type
						pre = append([]nStep{sRegister("T2")}, pre...)
						if roleInitiator(role) {
							v := sVoucher(k, 5)
							v.VType = "T2"
							pre = append(pre, v)
						} else {
							pre = append(pre, sMReq(other, msgSpec{IsReq: true, Type: mtVoucher, Tid: k.Tid, VType: "T2", VNode: 5}))
						}
					case "progress":
						kd := 2
						if rolePull(role) != roleInitiator(role) {
							kd = 0
						}
						pre = append(pre, sData(kd, k, 10, 1, true), sData(kd, k, 20, 2, true))
						if kd == 0 {
							pre = append(pre, sData(1, k, 10, 1, true))
						}
					}
					switch crash {
					case "rereg":
						pre = append(pre, sCrash(true))
					case "noreg":
						pre = append(pre, sCrash(false))
					}
					var tries []nStep
					if roleInitiator(role) {
						tries = []nStep{sK("restart", k), sRestartExisting(other, k), sRestartExisting(4, k),
							sMResp(other, respOf(mtRestart, k.Tid, true, false)), sMResp(other, respOf(mtRestart, k.Tid, false, false)),
							sTResp(k, respOf(mtRestart, k.Tid, true, true))}
						f := sK("restart", k)
						f.Sendf, f.Trf = []bool{false}, []bool{false}
						tries = append(tries, f)
					} else {
						pull := rolePull(role)
						valid := restartReq(k.Tid, pull)
						last := valid
						last.VNode = 5 // the most recent voucher instead of the original one
						if extra == "voucher" {
							last.VType = "T2"
						}
						mut := func(f func(m *msgSpec)) msgSpec { m := valid; f(&m); return m }
						tries = []nStep{
							{Kind: "restart", K: k, Vals: []valSpec{accept}},
							{Kind: "restart", K: k, Vals: []valSpec{{Accepted: false}}},
							{Kind: "restart", K: k, Vals: []valSpec{{Accepted: true, Err: true}}},
							sMReq(other, valid, accept), sTReq(k, valid, accept),
							sMReq(other, valid, valSpec{Accepted: false, HasRes: true, ResType: "R1", ResNode: 4}),
							sMReq(other, valid, valSpec{Accepted: true, Err: true}),
							sMReq(other, valid, valSpec{Accepted: true, Force: true}),
							sMReq(other, valid, valSpec{Accepted: true, Limit: 10, Fin: true}),
							sMReq(other, last, accept),
							sMReq(other, mut(func(m *msgSpec) { m.BaseCid = 2 }), accept),
							sMReq(other, mut(func(m *msgSpec) { m.VType = "T2" }), accept),
							sMReq(other, mut(func(m *msgSpec) { m.VNode = 9 }), accept),
							sMReq(other, mut(func(m *msgSpec) { m.VNode = 0 }), accept),
							sMReq(other, mut(func(m *msgSpec) { m.Pull = !m.Pull }), accept),
							sMReq(4, valid, accept),
							sRestartExisting(other, k),
						}
					}
					for ti, t := range tries {
						if tier != "thorough" && crash != "no" && ti%2 == 1 {
							continue
						}
						steps := append(append([]nStep(nil), pre...), t)
						if extra == "progress" && rolePull(role) == roleInitiator(role) {
							// the transport walks the blocks it already holds again after a restart
							steps = append(steps, sData(2, k, 10, 1, false))
						}
						// a follow-up input shows whether the transfer carries on
						steps = append(steps, sK("tdisconnected", k))
						s.run(fmt.Sprintf("restart role=%s status=%s extra=%s crash=%s", role, status, extra, crash), steps, nil)
					}
				}
			}
		}
	}
	// ---- a channel persisted while cleaning up (the process died between entering Cancelling / Failing /
	// Completing and the end of cleanup): restarting it only finishes the cleanup (C10, C09, C06).  Direct
	// monitors only: the stored record is rewritten by the harness, which the model has no input for.
	for _, role := range allRoles {
		for _, cst := range []datatransfer.Status{datatransfer.Cancelling, datatransfer.Failing, datatransfer.Completing} {
			base := recipe(role, "Ongoing", 1)
			if base == nil {
				continue
			}
			k := roleChid(role, 1)
			label := fmt.Sprintf("restart-in-cleanup role=%s persisted=%s", role, statusName(cst))
			func() {
				r := newNodeRig(s.res, 1)
				defer func() { _ = r.mgr.Stop(context.Background()) }()
				opens := 0
				for _, st := range append([]nStep{sRegister("T1")}, base...) {
					if st.Kind == "open" {
						opens++
					}
					r.exec(st, opens)
				}
				chid := r.chidReal(k)
				key := datastore.NewKey("/3/" + chid.String())
				raw, err := r.ds.inner.Get(context.Background(), key)
				if err != nil {
					return
				}
				var rec channels.VerifChannelState
				if rec.UnmarshalCBOR(bytes.NewReader(raw)) != nil {
					return
				}
				rec.Status = cst
				var buf bytes.Buffer
				if rec.MarshalCBOR(&buf) != nil {
					return
				}
				_ = r.mgr.Stop(context.Background())
				_ = r.ds.inner.Put(context.Background(), key, buf.Bytes())
				r.registered = map[string]bool{}
				r.boot()
				r.register("T1")
				o := r.exec(sK("restart", k), opens)
				fail := func(prop, sig, what string, obs interface{}) {
					s.res.fail(monitorFailure{Property: prop, CaseID: 0, Signature: sig, What: what, Input: label, Observed: obs})
				}
				st, err := r.mgr.ChannelState(context.Background(), chid)
				want := map[datatransfer.Status]datatransfer.Status{datatransfer.Cancelling: datatransfer.Cancelled, datatransfer.Failing: datatransfer.Failed, datatransfer.Completing: datatransfer.Completed}[cst]
				if err != nil || st.Status() != want {
					got := "?"
					if err == nil {
						got = statusName(st.Status())
					}
					for _, prop := range []string{"C10", "C09", "C06"} {
						fail(prop, "restart-in-cleanup-did-not-finish-cleanup", "restarting a channel that was persisted while cleaning up did not bring it to the matching terminal status", got)
					}
					if cst == datatransfer.Completing {
						fail("C01", "completing-channel-does-not-settle-after-crash", "a channel persisted in Completing (its final Complete sent / received) does not settle in Completed when the process comes back and restarts it", got)
					}
				}
				cleanups, others := 0, []string{}
				for _, t := range o.Trs {
					if t.K == k && t.Kind == "cleanup" {
						cleanups++
					} else {
						others = append(others, t.Kind)
					}
				}
				if cleanups != 1 {
					fail("C09", "restart-in-cleanup-cleanup-count", "restarting a channel persisted while cleaning up did not run the cleanup exactly once", cleanups)
				}
				if len(others) != 0 || len(o.Sent) != 0 || len(o.Vals) != 0 {
					fail("C10", "restart-in-cleanup-did-more-than-cleanup", "restarting a channel that is cleaning up did more than finish the cleanup: it issued transport commands, sent messages or re-validated",
						fmt.Sprintf("transport=%v messages=%d validations=%d", others, len(o.Sent), len(o.Vals)))
				}
				s.res.hist("restart-in-cleanup:" + statusName(cst))
			}()
		}
	}
	s.finish(dir, "enumerated: 4 roles x every non-terminal status reachable by a real history x {no extra, a second voucher, data progress} x {same process, process restart with / without re-registering the validator} x every restart path (API restart, restart-existing from counterparty and stranger, restart responses accepted / rejected, restart requests valid / rejected / validator error / forced pause / limit / carrying the latest instead of the original voucher / each single-field mutation / from a stranger); quick tier thins the combinations; plus 4 roles x {Cancelling, Failing, Completing} persisted by a process that died during cleanup, restarted through the manager (direct monitors only)", tier == "thorough")
}

// ---------- nodepeers (C05): who may act on which channel ----------

func runNodePeers(dir string, seed uint64, tier string) {
	s := &nodeSuite{name: "nodepeers", res: newResult("nodepeers", seed, tier)}
	// three live channels with different counterparties and roles, and colliding transfer ids across peers
	setup := []nStep{sRegister("T1"),
		sOpen(0, 2), sMResp(2, respOf(mtNew, 1001, true, false)), // created push with peer 2: (1,2,1001)
		sMReq(3, newReq(1001, true), accept),                     // received pull from peer 3 with the SAME transfer id: (3,1,1001)
		sOpen(1, 3), sMResp(3, respOf(mtNew, 1002, true, false)), // created pull with peer 3: (1,3,1002)
		sMReq(2, newReq(7, false), accept), // received push from peer 2: (2,1,7)
	}
	for _, sender := range []int{2, 3, 4, 1} {
		for _, tid := range []uint64{1001, 1002, 7, 55} {
			var msgs []nStep
			reqs := []msgSpec{newReq(tid, false), newReq(tid, true), restartReq(tid, false), restartReq(tid, true), reqOf(mtCancel, tid), reqOf(mtUpdate, tid),
				{IsReq: true, Type: mtUpdate, Tid: tid, Pause: true}, {IsReq: true, Type: mtVoucher, Tid: tid, VType: "T1", VNode: 5}}
			resps := []msgSpec{respOf(mtNew, tid, true, false), respOf(mtNew, tid, false, false), respOf(mtRestart, tid, true, false), respOf(mtCancel, tid, false, false),
				respOf(mtUpdate, tid, false, false), respOf(mtUpdate, tid, false, true), respOf(mtComplete, tid, true, false),
				{Type: mtVoucherResult, Tid: tid, Accepted: true, VType: "R1", VNode: 4}, {Type: mtVoucherResult, Tid: tid, Accepted: false, VType: "R1", VNode: 4}}
			for _, m := range reqs {
				msgs = append(msgs, sMReq(sender, m, accept))
			}
			for _, m := range resps {
				msgs = append(msgs, sMResp(sender, m))
			}
			for _, k := range []chidTok{{1, 2, 1001}, {3, 1, 1001}, {1, 3, 1002}, {2, 1, 7}, {1, 2, 55}} {
				if k.Tid == tid {
					msgs = append(msgs, sRestartExisting(sender, k))
				}
			}
			for _, m := range msgs {
				steps := append(append([]nStep(nil), setup...), m)
				s.run(fmt.Sprintf("peers sender=%d tid=%d", sender, tid), steps, nil)
			}
		}
	}
	// local role checks on every channel
	for _, k := range []chidTok{{1, 2, 1001}, {3, 1, 1001}, {1, 3, 1002}, {2, 1, 7}, {2, 1, 99}} {
		for _, st := range []nStep{sVoucher(k, 5), sResult(k, 6), sUpdate(k, accept), sUpdate(k, valSpec{Accepted: false})} {
			s.run("local-role", append(append([]nStep(nil), setup...), st), nil)
		}
	}
	// ids across manager lifetimes (C18, monitor only): a burst of opens, a process restart, one more open --
	// the later manager must start above every id the earlier one issued (same peer: otherwise the open collides
	// with the persisted channel; other peer: otherwise an id is silently reused)
	for round := 0; round < 3; round++ {
		rig := newNodeRig(s.res, 1)
		rig.register("T1")
		ctx := context.Background()
		var maxID uint64
		burst := 300 + 150*round
		for i := 0; i < burst; i++ {
			chid, err := rig.mgr.OpenPushDataChannel(ctx, peerOf(2+i%2), datatransfer.TypedVoucher{Type: "T1", Voucher: nodeOf(3)}, cidOf(1), nodeOf(2))
			if err != nil {
				s.res.fail(monitorFailure{Property: "C18", Signature: "burst-open-failed", What: "open failed during a burst: " + err.Error(), Input: fmt.Sprintf("burst of %d opens", burst)})
				break
			}
			if uint64(chid.ID) <= maxID {
				s.res.fail(monitorFailure{Property: "C18", Signature: "ids-not-increasing", What: "ids of one manager are not strictly increasing", Input: fmt.Sprintf("burst of %d opens", burst)})
			}
			maxID = uint64(chid.ID)
		}
		rig.restartProcess(true)
		chid, err := rig.mgr.OpenPushDataChannel(ctx, peerOf(2), datatransfer.TypedVoucher{Type: "T1", Voucher: nodeOf(3)}, cidOf(1), nodeOf(2))
		if err != nil || uint64(chid.ID) <= maxID {
			s.res.fail(monitorFailure{Property: "C18", Signature: "later-manager-id-not-above", What: "after a process restart the manager issued an id that is not above the ids of the earlier manager (or the open collided with a persisted channel)",
				Input: fmt.Sprintf("burst of %d opens, restart, one open", burst), Observed: fmt.Sprintf("id=%d err=%v", uint64(chid.ID), err), Expected: fmt.Sprintf("> %d", maxID)})
		}
		_ = rig.mgr.Stop(ctx)
		s.res.hist("burst-restart-rounds")
	}
	// ids drawn concurrently from one manager's generator (C18, monitor only): whatever the interleaving of the draws,
	// the ids are pairwise distinct, increasing for each caller, and exactly the n values after the seed
	for round := 0; round < 3; round++ {
		tc := impl.VerifNewTimeCounter()
		first := tc.Next()
		workers := 2 * runtime.GOMAXPROCS(0)
		if workers < 8 {
			workers = 8
		}
		const per = 60000
		draws := make([][]uint64, workers)
		var wg sync.WaitGroup
		start := make(chan struct{})
		for w := 0; w < workers; w++ {
			wg.Add(1)
			go func(w int) {
				defer wg.Done()
				out := make([]uint64, per)
				<-start
				for i := range out {
					out[i] = tc.Next()
				}
				draws[w] = out
			}(w)
		}
		close(start)
		wg.Wait()
		all := make([]uint64, 0, workers*per)
		notIncreasing := 0
		for _, d := range draws {
			for i := 1; i < len(d); i++ {
				if d[i] <= d[i-1] {
					notIncreasing++
				}
			}
			all = append(all, d...)
		}
		sort.Slice(all, func(i, j int) bool { return all[i] < all[j] })
		dups := 0
		for i := 1; i < len(all); i++ {
			if all[i] == all[i-1] {
				dups++
			}
		}
		input := fmt.Sprintf("%d goroutines drawing %d ids each from one generator", workers, per)
		if dups > 0 {
			s.res.fail(monitorFailure{Property: "C18", Signature: "concurrent-draws-duplicate-ids", What: "two concurrent draws from one manager's id generator returned the same transfer id", Input: input, Observed: fmt.Sprintf("%d duplicates among %d ids", dups, len(all))})
		}
		if notIncreasing > 0 {
			s.res.fail(monitorFailure{Property: "C18", Signature: "concurrent-draws-not-increasing", What: "the ids one caller drew are not strictly increasing", Input: input, Observed: notIncreasing})
		}
		if dups == 0 && (all[0] != first+1 || all[len(all)-1] != first+uint64(len(all))) {
			s.res.fail(monitorFailure{Property: "C18", Signature: "concurrent-draws-not-the-next-n", What: "n draws did not return exactly the n values after the seed", Input: input,
				Observed: fmt.Sprintf("min=%d max=%d", all[0]-first, all[len(all)-1]-first), Expected: fmt.Sprintf("1..%d", len(all))})
		}
		s.res.hist("concurrent-draw-rounds")
	}
	s.finish(dir, "enumerated: a node with four live channels (both roles, both directions, transfer ids colliding across peers) x sender {each counterparty, stranger, self} x transfer id {each existing id, fresh} x every request kind (8), response kind (9) and restart-existing request; plus SendVoucher / SendVoucherResult / UpdateValidationStatus on every channel and an unknown id; 3 rounds of a burst of 300-600 opens, process restart, one more open (ids across manager lifetimes); 3 rounds of 2 x GOMAXPROCS goroutines drawing 60000 ids each from one generator (distinct, increasing per caller, exactly the next n values)", true)
}

// ---------- nodeapi (C08, C09, C11, C19): API calls in every role and status, with send failures ----------

func runNodeAPI(dir string, seed uint64, tier string) {
	s := &nodeSuite{name: "nodeapi", res: newResult("nodeapi", seed, tier)}
	for _, role := range allRoles {
		k := roleChid(role, 1)
		other := 2
		for _, status := range statusesOf(role) {
			base := recipe(role, status, 1)
			if base == nil {
				continue
			}
			pre := append([]nStep{sRegister("T1")}, base...)
			fail1 := func(st nStep) nStep { st.Sendf = []bool{false}; return st }
			trf1 := func(st nStep) nStep { st.Trf = []bool{false}; return st }
			var upd msgSpec
			if roleInitiator(role) {
				upd = respOf(mtUpdate, k.Tid, false, false)
			} else {
				upd = reqOf(mtUpdate, k.Tid)
			}
			counterResume := func() nStep {
				if roleInitiator(role) {
					return sMResp(other, upd)
				}
				return sMReq(other, upd)
			}
			counterPause := func() nStep {
				m := upd
				m.Pause = true
				if roleInitiator(role) {
					return sMResp(other, m)
				}
				return sMReq(other, m)
			}
			seqs := [][]nStep{
				{sK("close", k)}, {fail1(sK("close", k))}, {trf1(sK("close", k))}, {sK("closeerr", k)}, {fail1(sK("closeerr", k))},
				{sK("close", k), sK("close", k)}, {sK("closeerr", k), sK("close", k)},
				{sK("pause", k)}, {fail1(sK("pause", k))}, {trf1(sK("pause", k))}, {sK("resume", k)}, {sK("pause", k), sK("resume", k)},
				{sK("pause", k), counterResume()}, {sK("pause", k), counterPause(), counterResume()}, {counterPause(), sK("pause", k), sK("resume", k)},
				{counterPause(), counterResume()}, {sK("pause", k), sK("pause", k), sK("resume", k), sK("resume", k)},
				{sVoucher(k, 5)}, {fail1(sVoucher(k, 5))}, {sVoucher(k, 5), sVoucher(k, 6)}, {sResult(k, 6)}, {fail1(sResult(k, 6))}, {sResult(k, 6), sResult(k, 8)}, {sResult(k, 6), sResult(k, 6)}, {sVoucher(k, 5), sVoucher(k, 5)},
				{sK("tcancelled", k), sK("close", k)}, {sCompleted(k, true)}, {sCompleted(k, true), sCompleted(k, true)}, {sCompleted(k, false), sCompleted(k, false)},
			}
			if roleInitiator(role) && (status == "Ongoing" || status == "Queued" || status == "AwaitingAcceptance") {
				// pause, then the channel moves on while paused, then resume
				for _, mv := range [][]nStep{{sMResp(other, respOf(mtComplete, k.Tid, true, false))}, {sMResp(other, respOf(mtComplete, k.Tid, true, true))},
					{sCompleted(k, false)}, {sMResp(other, respOf(mtNew, k.Tid, true, false))}, {sK("tinitiated", k)}} {
					q := append([]nStep{sK("pause", k)}, mv...)
					seqs = append(seqs, append(q, sK("resume", k), counterResume()))
				}
			}
			if roleInitiator(role) {
				// responses of the counterparty that carry a voucher result, accepted or not, over the network and
				// as a transport extension: the initiator records the result (once), then acts on the verdict
				for _, mt := range []uint64{mtNew, mtRestart, mtVoucherResult, mtComplete} {
					for _, acc := range []bool{true, false} {
						m := respOf(mt, k.Tid, acc, false)
						m.VType, m.VNode = "R1", 4
						seqs = append(seqs, []nStep{sMResp(other, m)}, []nStep{sTResp(k, m)})
					}
				}
			}
			if !roleInitiator(role) && (status == "Ongoing" || status == "Queued") {
				for _, mv := range [][]nStep{{sK("tinitiated", k)}, {sData(2, k, 5, 1, true)}, {sMReq(other, msgSpec{IsReq: true, Type: mtVoucher, Tid: k.Tid, VType: "T1", VNode: 5})}} {
					q := append([]nStep{sK("pause", k)}, mv...)
					seqs = append(seqs, append(q, sK("resume", k), counterResume()))
				}
			}
			for _, q := range seqs {
				steps := append(append([]nStep(nil), pre...), q...)
				steps = append(steps, sK("tdisconnected", k))
				s.run(fmt.Sprintf("api role=%s status=%s", role, status), steps, nil)
			}
		}
	}
	// data limits: block size sequences against limit schedules with validation-update rounds and restarts
	k := chidTok{2, 1, 7}
	sizes := [][]uint64{{5, 5, 5, 5}, {3, 7, 1, 9}, {10, 10}, {1, 2, 3, 5}}
	for _, pull := range []bool{false, true} {
		kd := 2
		if pull {
			kd = 0
		}
		for _, sz := range sizes {
			var sums []uint64
			var t uint64
			for _, x := range sz {
				t += x
				sums = append(sums, t)
			}
			limits := map[uint64]bool{0: true}
			for _, x := range sums {
				limits[x], limits[x+1] = true, true
				if x > 0 {
					limits[x-1] = true
				}
			}
			for l := range limits {
				for _, crashAt := range []int{-1, 0, 1} {
					if tier != "thorough" && crashAt >= 0 && l%2 == 1 {
						continue
					}
					steps := []nStep{sRegister("T1"), sMReq(2, newReq(7, pull), valSpec{Accepted: true, Limit: l}), sK("tinitiated", k)}
					var total uint64
					raised := false
					for i, x := range sz {
						steps = append(steps, sData(kd, k, x, int64(i+1), true))
						if pull {
							steps = append(steps, sData(1, k, x, int64(i+1), true))
						}
						total += x
						if i == crashAt {
							steps = append(steps, sCrash(true))
						}
						if l != 0 && total >= l && !raised {
							raised = true
							// re-validation rounds at the boundary values of the new limit
							for _, nl := range []uint64{total - 1, total, total + 1, 0} {
								steps = append(steps, sUpdate(k, valSpec{Accepted: true, Limit: nl}))
								if nl == 0 || nl > total {
									break
								}
							}
						}
					}
					steps = append(steps, sCompleted(k, false))
					s.run(fmt.Sprintf("limits pull=%v sizes=%v limit=%d crashAt=%d", pull, sz, l, crashAt), steps, nil)
				}
			}
		}
	}
	s.finish(dir, "enumerated: 4 roles x every status reachable by a real history x 27 API sequences (close / close-with-error with and without send and transport failures, double close, pause / resume locally and by the counterparty in every order, vouchers and results with failing sends, failed completion); data limits: 4 block-size sequences x initial limit in {0, every prefix sum -1/0/+1} x {push, pull} x restart point, with validation-update rounds at new limit = progress-1, progress, progress+1, 0", true)
}

// slowSubscriberProbe (C02, C17): a subscriber that stays for seconds inside its callback holds the queue of
// announcements, it does not reorder it: a second subscriber is told about a channel's events in the order they
// were applied, and once it has been told that the channel is Cancelled it is told nothing more about it
func slowSubscriberProbe(res *suiteResult) {
	r := newNodeRig(res, 1)
	defer func() { _ = r.mgr.Stop(context.Background()) }()
	ctx := context.Background()
	release := make(chan struct{})
	var once sync.Once
	var target atomic.Value
	r.mgr.SubscribeToEvents(func(evt datatransfer.Event, st datatransfer.ChannelState) {
		if c, ok := target.Load().(datatransfer.ChannelID); !ok || st.ChannelID() != c {
			if st.ChannelID() == r.sentinel {
				return
			}
		}
		if st.ChannelID() == r.sentinel {
			return
		}
		first := false
		once.Do(func() { first = true })
		if first {
			select {
			case <-release:
			case <-time.After(8 * time.Second):
			}
		}
	})
	type seen struct {
		code   datatransfer.EventCode
		status datatransfer.Status
	}
	var mu sync.Mutex
	var got []seen
	terminal := make(chan struct{}, 1)
	r.mgr.SubscribeToEvents(func(evt datatransfer.Event, st datatransfer.ChannelState) {
		if st.ChannelID() == r.sentinel {
			return
		}
		mu.Lock()
		got = append(got, seen{evt.Code, st.Status()})
		mu.Unlock()
		if st.Status() == datatransfer.Cancelled {
			select {
			case terminal <- struct{}{}:
			default:
			}
		}
	})
	chid, err := r.mgr.OpenPushDataChannel(ctx, peerOf(2), datatransfer.TypedVoucher{Type: "T1", Voucher: nodeOf(3)}, cidOf(1), nodeOf(2))
	if err != nil {
		return
	}
	target.Store(chid)
	_ = r.mgr.CloseDataTransferChannel(ctx, chid)
	// give a notifier that does not wait for its subscribers the time to move on; one that does is simply held
	select {
	case <-terminal:
	case <-time.After(3500 * time.Millisecond):
	}
	close(release)
	deadline := time.Now().Add(10 * time.Second)
	for time.Now().Before(deadline) {
		mu.Lock()
		n := len(got)
		done := n > 0 && got[n-1].status == datatransfer.Cancelled
		mu.Unlock()
		if done {
			break
		}
		time.Sleep(20 * time.Millisecond)
	}
	time.Sleep(300 * time.Millisecond)
	mu.Lock()
	defer mu.Unlock()
	afterTerminal := false
	for _, g := range got {
		if afterTerminal {
			what := fmt.Sprintf("event %s (status %s) was handed to a subscriber after it had been told that the channel is Cancelled: a subscriber that spent seconds in its callback made the announcements overtake each other", eventName(g.code), statusName(g.status))
			res.fail(monitorFailure{Property: "C02", Signature: "event-after-terminal:slow-subscriber", What: what, Input: "open push, close, with a first subscriber that stays 3.5 s in its first callback"})
			res.fail(monitorFailure{Property: "C17", Signature: "event-after-terminal:slow-subscriber", What: what, Input: "open push, close, with a first subscriber that stays 3.5 s in its first callback"})
			break
		}
		if g.status == datatransfer.Cancelled {
			afterTerminal = true
		}
	}
}
