package main

import (
	"bytes"
	"context"
	"errors"
	"fmt"
	"io"
	"path/filepath"
	"strings"
	"sync"
	"time"

	"github.com/libp2p/go-libp2p/core/host"
	"github.com/libp2p/go-libp2p/core/network"
	"github.com/libp2p/go-libp2p/core/peer"
	"github.com/libp2p/go-libp2p/core/protocol"

	datatransfer "github.com/filecoin-project/go-data-transfer/v2"
	"github.com/filecoin-project/go-data-transfer/v2/message"
	dtnet "github.com/filecoin-project/go-data-transfer/v2/network"
)

// ---------- H4: the real libp2pDataTransferNetwork over a scripted host / stream double (C15) ----------

var (
	errOpen  = errors.New("scripted: stream open failed")
	errWrite = errors.New("scripted: write failed")
	errReset = errors.New("scripted: reset failed")
	errClose = errors.New("scripted: close failed")
)

type fakeConn struct {
	network.Conn
	remote peer.ID
}

func (c *fakeConn) RemotePeer() peer.ID { return c.remote }

type fakeStream struct {
	wdl time.Time // the first write deadline set on the stream
	network.Stream
	mu       sync.Mutex
	proto    protocol.ID
	conn     *fakeConn
	in       io.Reader
	out      bytes.Buffer
	writeErr error
	resetErr error
	closeErr error
	ops      []int // 0 write 1 write-failed 2 reset 3 close
}

func (s *fakeStream) Read(p []byte) (int, error) { return s.in.Read(p) }
func (s *fakeStream) Write(p []byte) (int, error) {
	s.mu.Lock()
	defer s.mu.Unlock()
	if s.writeErr != nil {
		if len(s.ops) == 0 || s.ops[len(s.ops)-1] != 1 {
			s.ops = append(s.ops, 1)
		}
		return 0, s.writeErr
	}
	if len(s.ops) == 0 || s.ops[len(s.ops)-1] != 0 {
		s.ops = append(s.ops, 0)
	}
	return s.out.Write(p)
}
func (s *fakeStream) Reset() error {
	s.mu.Lock()
	defer s.mu.Unlock()
	s.ops = append(s.ops, 2)
	return s.resetErr
}
func (s *fakeStream) Close() error {
	s.mu.Lock()
	defer s.mu.Unlock()
	s.ops = append(s.ops, 3)
	return s.closeErr
}
func (s *fakeStream) SetDeadline(time.Time) error      { return nil }
func (s *fakeStream) SetReadDeadline(time.Time) error  { return nil }
func (s *fakeStream) SetWriteDeadline(t time.Time) error {
	s.mu.Lock()
	if !t.IsZero() && s.wdl.IsZero() {
		s.wdl = t
	}
	s.mu.Unlock()
	return nil
}
func (s *fakeStream) Protocol() protocol.ID            { return s.proto }
func (s *fakeStream) Conn() network.Conn               { return s.conn }

type fakeHost struct {
	host.Host
	mu       sync.Mutex
	self     peer.ID
	opens    []bool // scripted results of successive NewStream calls (missing = failure)
	calls    int
	wrongTo  bool
	to       peer.ID
	cancelAt int // cancel the caller's context when this many attempts have failed (0 = never)
	cancel   context.CancelFunc
	stream   *fakeStream
	handlers map[protocol.ID]network.StreamHandler
	eager    func(handler network.StreamHandler) // run inside SetStreamHandler, once
}

func (h *fakeHost) ID() peer.ID { return h.self }
func (h *fakeHost) NewStream(ctx context.Context, p peer.ID, pids ...protocol.ID) (network.Stream, error) {
	h.mu.Lock()
	defer h.mu.Unlock()
	h.calls++
	if p != h.to {
		h.wrongTo = true
	}
	ok := false
	if h.calls <= len(h.opens) {
		ok = h.opens[h.calls-1]
	}
	if ctx.Err() != nil {
		ok = false
	}
	if ok {
		return h.stream, nil
	}
	if h.cancelAt != 0 && h.calls == h.cancelAt {
		h.cancel()
	}
	return nil, errOpen
}
func (h *fakeHost) SetStreamHandler(pid protocol.ID, handler network.StreamHandler) {
	h.mu.Lock()
	defer h.mu.Unlock()
	if h.handlers == nil {
		h.handlers = map[protocol.ID]network.StreamHandler{}
	}
	h.handlers[pid] = handler
	if h.eager != nil && pid == datatransfer.ProtocolDataTransfer1_2 {
		// a peer that has been retrying opens its stream the moment the protocol is served
		e := h.eager
		h.eager = nil
		h.mu.Unlock()
		e(handler)
		h.mu.Lock()
	}
}

type recvCall struct {
	Kind int // 0 request 1 restart-existing 2 response
	Peer int
	ID   uint64
}

type recvDouble struct {
	mu    sync.Mutex
	calls []recvCall
	errs  int
}

func (r *recvDouble) add(k int, p peer.ID, id datatransfer.TransferID) {
	r.mu.Lock()
	r.calls = append(r.calls, recvCall{k, tokOfPeer(p), uint64(id)})
	r.mu.Unlock()
}
func (r *recvDouble) ReceiveRequest(ctx context.Context, p peer.ID, m datatransfer.Request) {
	r.add(0, p, m.TransferID())
}
func (r *recvDouble) ReceiveResponse(ctx context.Context, p peer.ID, m datatransfer.Response) {
	r.add(2, p, m.TransferID())
}
func (r *recvDouble) ReceiveRestartExistingChannelRequest(ctx context.Context, p peer.ID, m datatransfer.Request) {
	ch, err := m.RestartChannelId()
	id := datatransfer.TransferID(0)
	if err == nil {
		id = ch.ID
	}
	r.add(1, p, id)
}
func (r *recvDouble) ReceiveError(err error) {
	r.mu.Lock()
	r.errs++
	r.mu.Unlock()
}

// the messages the suite sends / receives: every kind of the protocol
func netMessages(id uint64) []datatransfer.Message {
	tid := datatransfer.TransferID(id)
	v := datatransfer.TypedVoucher{Type: "T1", Voucher: nodeOf(3)}
	must := func(m datatransfer.Message, err error) datatransfer.Message {
		if err != nil {
			panic(err)
		}
		return m
	}
	q1, e1 := message.NewRequest(tid, false, false, &v, cidOf(1), nodeOf(2))
	q2, e2 := message.NewRequest(tid, true, true, &v, cidOf(1), nodeOf(2))
	q3, e3 := message.VoucherRequest(tid, &v)
	r1, e4 := message.NewResponse(tid, true, false, &v)
	r2, e5 := message.CompleteResponse(tid, true, true, &v)
	r3, e6 := message.RestartResponse(tid, false, false, nil)
	return []datatransfer.Message{
		must(q1, e1), must(q2, e2), must(q3, e3), message.UpdateRequest(tid, true), message.CancelRequest(tid),
		message.RestartExistingChannelRequest(datatransfer.ChannelID{Initiator: peerOf(2), Responder: peerOf(1), ID: tid}),
		must(r1, e4), must(r2, e5), must(r3, e6), message.UpdateResponse(tid, false), message.CancelResponse(tid),
	}
}

func kindOfMsg(m datatransfer.Message) int {
	if !m.IsRequest() {
		return 2
	}
	if m.(datatransfer.Request).IsRestartExistingChannelRequest() {
		return 1
	}
	return 0
}

type netSendCase struct {
	id          int
	connect     bool
	max         int     // model value: max 1 (ceil configured)
	cfgMax      float64 // what was configured
	opens       []bool
	cancel      int
	protoOK     bool
	writeOK     bool
	resetOK     bool
	closeOK     bool
	attempts    int
	res         int
	ops         []int
	delivered   int
	slowBackoff bool // the back-off between attempts is longer than the per-attempt open timeout
}

func (c netSendCase) coq() string {
	var ops []string
	for _, o := range c.ops {
		ops = append(ops, coqN(uint64(o)))
	}
	var opens []string
	for _, o := range c.opens {
		opens = append(opens, coqBool(o))
	}
	cancel := "None"
	if c.cancel != 0 {
		cancel = fmt.Sprintf("(Some %d)", c.cancel)
	}
	return fmt.Sprintf("  NSend %s %s (mkSendIn %d %s %s %s %s %s %s) %s %s %s %s", coqN(uint64(c.id)), coqBool(c.connect), c.max, coqList(opens), cancel,
		coqBool(c.protoOK), coqBool(c.writeOK), coqBool(c.resetOK), coqBool(c.closeOK), coqN(uint64(c.attempts)), coqN(uint64(c.res)), coqList(ops), coqN(uint64(c.delivered)))
}

func classifySendErr(err error) int {
	switch {
	case err == nil:
		return 0
	case errors.Is(err, errWrite):
		return 4
	case errors.Is(err, errReset):
		return 5
	case errors.Is(err, errClose):
		return 6
	case errors.Is(err, context.Canceled) || errors.Is(err, context.DeadlineExceeded):
		return 2
	case strings.Contains(err.Error(), "exhausted"):
		return 1
	case strings.Contains(err.Error(), "protocol"):
		return 3
	}
	return 9
}

func runNet(dir string, seed uint64, tier string) {
	res := newResult("net", seed, tier)
	r := newRng(seed)
	var lines []string
	var mu sync.Mutex
	id := 0
	fail := func(cid int, sig, what, input string, obs, exp interface{}) {
		res.fail(monitorFailure{Property: "C15", CaseID: cid, Signature: sig, What: what, Input: input, Observed: obs, Expected: exp})
	}
	// ---- outbound ----
	type sendJob struct {
		c     netSendCase
		label string
		msg   datatransfer.Message
	}
	var jobs []sendJob
	msgs := netMessages(77)
	addSend := func(c netSendCase) {
		id++
		c.id = id
		m := msgs[r.intn(len(msgs))]
		label := fmt.Sprintf("send connect=%v configured-attempts=%g opens=%v cancel-during-backoff=%d proto-ok=%v write-ok=%v reset-ok=%v close-ok=%v message-kind=%d",
			c.connect, c.cfgMax, c.opens, c.cancel, c.protoOK, c.writeOK, c.resetOK, c.closeOK, kindOfMsg(m))
		res.CaseLabels = append(res.CaseLabels, label)
		if onlyCase != 0 && onlyCase != id {
			return
		}
		jobs = append(jobs, sendJob{c, label, m})
	}
	for _, cfgMax := range []float64{1, 2, 3, 4, 0, 2.5} {
		max := int(cfgMax)
		if float64(max) < cfgMax {
			max++
		}
		if max < 1 {
			max = 1
		}
		for succ := 1; succ <= max+1; succ++ { // the attempt that succeeds; max+1 = never
			opens := make([]bool, max+1)
			if succ <= max {
				opens[succ-1] = true
			}
			for cancel := 0; cancel < succ && cancel < max; cancel++ { // 0 = never cancelled
				for _, w := range [][4]bool{{true, true, true, true}, {true, true, true, false}, {true, false, true, true}, {true, false, false, true}, {false, true, true, true}} {
					if (succ > max || cancel != 0) && w != [4]bool{true, true, true, true} {
						continue // the stream is never opened: its behaviour is irrelevant
					}
					addSend(netSendCase{max: max, cfgMax: cfgMax, opens: opens, cancel: cancel, protoOK: w[0], writeOK: w[1], resetOK: w[2], closeOK: w[3]})
				}
				addSend(netSendCase{connect: true, max: max, cfgMax: cfgMax, opens: opens, cancel: cancel, protoOK: true, writeOK: true, resetOK: true, closeOK: r.chance(70)})
			}
		}
	}
	// the pause between two attempts may well be longer than the time one attempt is allowed to take:
	// the remaining attempts are made all the same
	for _, opens := range [][]bool{{false, true}, {false, false, true}, {false, false, false}} {
		for _, connect := range []bool{false, true} {
			addSend(netSendCase{connect: connect, max: 3, cfgMax: 3, opens: opens, protoOK: true, writeOK: true, resetOK: true, closeOK: true, slowBackoff: true})
		}
	}
	// generated open patterns (a success hidden behind the attempt cap must not be reached)
	nGen := 60
	if tier == "thorough" {
		nGen = 1500
	}
	for i := 0; i < nGen; i++ {
		max := 1 + r.intn(5)
		opens := make([]bool, max+2)
		for j := range opens {
			opens[j] = r.chance(30)
		}
		cancel := 0
		if r.chance(25) && max > 1 {
			cancel = 1 + r.intn(max-1)
		}
		addSend(netSendCase{connect: r.chance(20), max: max, cfgMax: float64(max), opens: opens, cancel: cancel, protoOK: !r.chance(8), writeOK: !r.chance(25), resetOK: !r.chance(25), closeOK: !r.chance(25)})
	}
	runSend := func(j sendJob, final bool) (retry bool) {
		c := j.c
		stream := &fakeStream{proto: datatransfer.ProtocolDataTransfer1_2, conn: &fakeConn{remote: peerOf(2)}}
		protos := []protocol.ID{datatransfer.ProtocolDataTransfer1_2}
		if !c.protoOK {
			stream.proto = "/verif/unknown/1.0"
			protos = []protocol.ID{"/verif/unknown/1.0"}
		}
		if !c.writeOK {
			stream.writeErr = errWrite
		}
		if !c.resetOK {
			stream.resetErr = errReset
		}
		if !c.closeOK {
			stream.closeErr = errClose
		}
		// the caller's context ends before the default time allowed for a write (10 s): a write must not be
		// allowed to outlive the context it was sent under
		ctxDeadline := time.Now().Add(8 * time.Second)
		ctx, cancel := context.WithDeadline(context.Background(), ctxDeadline)
		defer cancel()
		h := &fakeHost{self: peerOf(1), to: peerOf(2), opens: c.opens, cancelAt: c.cancel, cancel: cancel, stream: stream}
		backoff := time.Millisecond
		if c.cancel != 0 {
			backoff = 120 * time.Millisecond // a cancelled context must win against the back-off timer
		}
		opts := []dtnet.Option{dtnet.RetryParameters(backoff, backoff, c.cfgMax, 1), dtnet.DataTransferProtocols(protos)}
		if c.slowBackoff {
			opts = []dtnet.Option{dtnet.RetryParameters(120*time.Millisecond, 120*time.Millisecond, c.cfgMax, 1), dtnet.DataTransferProtocols(protos),
				dtnet.SendMessageParameters(30*time.Millisecond, 10*time.Second)}
		}
		n := dtnet.NewFromLibp2pHost(h, opts...)
		start := time.Now()
		var err error
		done := make(chan struct{})
		go func() {
			defer close(done)
			defer func() {
				if p := recover(); p != nil {
					err = fmt.Errorf("panic: %v", p)
				}
			}()
			if c.connect {
				err = n.ConnectWithRetry(ctx, peerOf(2))
			} else {
				err = n.SendMessage(ctx, peerOf(2), j.msg)
			}
		}()
		select {
		case <-done:
		case <-time.After(10 * time.Second):
			fail(c.id, "send-did-not-return", "SendMessage / ConnectWithRetry did not return within 10s", j.label, nil, nil)
			return false
		}
		elapsed := time.Since(start)
		stream.mu.Lock()
		wdl := stream.wdl
		stream.mu.Unlock()
		if !wdl.IsZero() && wdl.After(ctxDeadline.Add(50*time.Millisecond)) {
			fail(c.id, "write-outlives-context", fmt.Sprintf("the write of a message was given until %s after the deadline of the context it was sent under: a stalled write keeps the sender for that long after its context is done", wdl.Sub(ctxDeadline).Round(time.Millisecond)), j.label, nil, nil)
		}
		h.mu.Lock()
		c.attempts = h.calls
		wrongTo := h.wrongTo
		h.mu.Unlock()
		c.res = classifySendErr(err)
		stream.mu.Lock()
		c.ops = append([]int(nil), stream.ops...)
		written := stream.out.Bytes()
		stream.mu.Unlock()
		// how many copies of the message reached the peer
		rd := bytes.NewReader(written)
		for rd.Len() > 0 {
			m, derr := message.FromNet(rd)
			if derr != nil {
				fail(c.id, "sent-bytes-undecodable", "the bytes written to the stream do not decode as a message", j.label, derr.Error(), nil)
				break
			}
			c.delivered++
			if m.TransferID() != j.msg.TransferID() || m.IsRequest() != j.msg.IsRequest() || kindOfMsg(m) != kindOfMsg(j.msg) {
				fail(c.id, "sent-other-message", "the message written to the stream is not the message given to SendMessage", j.label, nil, nil)
			}
		}
		// ----- direct monitors -----
		if c.res == 9 {
			fail(c.id, "send-unclassified-error", "unexpected error: "+err.Error(), j.label, nil, nil)
		}
		if wrongTo {
			fail(c.id, "stream-to-wrong-peer", "a stream was opened to a peer other than the intended one", j.label, nil, nil)
		}
		if c.attempts > c.max {
			fail(c.id, "too-many-open-attempts", "more stream-open attempts than configured", j.label, c.attempts, c.max)
		}
		firstOK := 0
		for i, o := range c.opens {
			if o {
				firstOK = i + 1
				break
			}
		}
		reachable := firstOK != 0 && firstOK <= c.max && (c.cancel == 0 || firstOK <= c.cancel)
		if reachable && (c.res == 1 || c.res == 2) {
			fail(c.id, "open-succeeded-but-failed", "a stream-open attempt within the limit succeeded but the send reported an open failure", j.label, c.res, nil)
		}
		if !reachable && c.res == 0 {
			fail(c.id, "success-without-open", "success was reported although no stream-open attempt succeeded", j.label, nil, nil)
		}
		if c.res == 0 && !c.connect && c.delivered != 1 {
			fail(c.id, "success-not-delivered-once", "success was reported but the message was not delivered exactly once", j.label, c.delivered, 1)
		}
		if c.delivered > 1 {
			fail(c.id, "delivered-twice", "the message was written more than once", j.label, c.delivered, 1)
		}
		if reachable && !c.connect && c.protoOK && !c.writeOK {
			sawReset := false
			for _, o := range c.ops {
				sawReset = sawReset || o == 2
			}
			if !sawReset || err == nil {
				fail(c.id, "failed-write-not-reset-or-reported", "a failed write did not reset the stream or was not reported", j.label, fmt.Sprintf("ops=%v err=%v", c.ops, err), "reset + error")
				if err == nil {
					// the manager records a voucher / voucher result right after a send that reported success
					res.fail(monitorFailure{Property: "C19", CaseID: c.id, Signature: "failed-send-reported-as-sent", Input: j.label, Observed: fmt.Sprintf("ops=%v err=%v", c.ops, err),
						What: "a message whose write failed was reported as sent: SendVoucher / SendVoucherResult then record a voucher (result) that never left"})
				}
			}
		}
		if c.cancel != 0 && !reachable {
			if c.attempts > c.cancel {
				fail(c.id, "attempt-after-cancel", "another stream-open attempt was made after the context was cancelled", j.label, c.attempts, c.cancel)
			}
			if elapsed > time.Duration(c.cancel-1)*120*time.Millisecond+100*time.Millisecond {
				if !final {
					return true // judged only when it repeats on an otherwise idle machine
				}
				fail(c.id, "cancel-not-prompt", "the send did not give up promptly when its context was cancelled during the back-off", j.label, elapsed.String(), nil)
			}
		}
		mu.Lock()
		lines = append(lines, c.coq())
		mu.Unlock()
		res.hist(fmt.Sprintf("send-result:%d", c.res))
		return false
	}
	var wg sync.WaitGroup
	sem := make(chan struct{}, 48)
	var again []sendJob
	for _, j := range jobs {
		wg.Add(1)
		sem <- struct{}{}
		go func(j sendJob) {
			defer wg.Done()
			defer func() { <-sem }()
			if runSend(j, false) {
				mu.Lock()
				again = append(again, j)
				mu.Unlock()
			}
		}(j)
	}
	wg.Wait()
	for _, j := range again {
		res.hist("send-timing-rerun")
		runSend(j, true)
	}
	// ---- inbound ----
	nIn := 400
	if tier == "thorough" {
		nIn = 8000
	}
	for i := 0; i < nIn; i++ {
		id++
		nmsg := 1
		if x := r.intn(100); x < 10 {
			nmsg = 0
		} else if x >= 65 {
			nmsg = 2 + r.intn(3)
		}
		var buf bytes.Buffer
		var items []string
		var want []recvCall
		peerTok := 2 + r.intn(3)
		for j := 0; j < nmsg; j++ {
			tid := uint64(100 + j)
			ms := netMessages(tid)
			m := ms[r.intn(len(ms))]
			if err := m.ToNet(&buf); err != nil {
				panic(err)
			}
			k := kindOfMsg(m)
			items = append(items, fmt.Sprintf("IMsg %s %s", []string{"KRequest", "KRestartExisting", "KResponse"}[k], coqN(tid)))
			want = append(want, recvCall{k, peerTok, tid})
		}
		ending := "EClean"
		tail := r.intn(10)
		var tailBytes []byte
		switch {
		case tail < 6: // clean EOF
		case tail < 8: // a message cut short
			var b2 bytes.Buffer
			_ = netMessages(9)[r.intn(11)].ToNet(&b2)
			tailBytes = b2.Bytes()[:1+r.intn(b2.Len()-1)]
		default: // garbage of several flavours
			switch r.intn(4) {
			case 0:
				tailBytes = []byte{0xff, 0xff, 0xff, 0xff}
			case 1:
				tailBytes = []byte{0x83, 0x01, 0x02, 0x03} // a CBOR list, not a message
			case 2:
				tailBytes = []byte{0xa1, 0x63, 0x66, 0x6f, 0x6f, 0x01} // a CBOR map with a foreign key
			default:
				n := 1 + r.intn(40)
				tailBytes = make([]byte, n)
				for q := range tailBytes {
					tailBytes[q] = byte(r.intn(256))
				}
			}
		}
		flagMismatch := false
		if nmsg == 1 && tail < 6 && r.chance(12) {
			// a single message whose IsRq flag names the body that is absent: schema-valid, yet malformed
			// (its body is missing) -- by construction, whatever the decoder makes of it
			b := buf.Bytes()
			if len(b) > 7 && (b[6] == 0xf5 || b[6] == 0xf4) && bytes.HasPrefix(b[1:], []byte{0x64, 'I', 's', 'R', 'q'}) {
				b[6] ^= 0x01
				flagMismatch = true
			}
		}
		buf.Write(tailBytes)
		// What the stream "is" is decided by the codec (C12's subject, not C15's): decode it the way a
		// reader would, message after message.  Note that the codec rejects trailing bytes, so a stream
		// carrying more than one message is malformed as a whole (one message per stream).
		items, want = nil, nil
		rd := bytes.NewReader(buf.Bytes())
		for {
			if flagMismatch {
				items = append(items, "IBad")
				break
			}
			m, derr := message.FromNet(rd)
			if derr == nil {
				k := kindOfMsg(m)
				tid := uint64(m.TransferID())
				if k == 1 {
					if ch, e := m.(datatransfer.Request).RestartChannelId(); e == nil {
						tid = uint64(ch.ID)
					}
				}
				items = append(items, fmt.Sprintf("IMsg %s %s", []string{"KRequest", "KRestartExisting", "KResponse"}[k], coqN(tid)))
				want = append(want, recvCall{k, peerTok, tid})
				continue
			}
			if derr == io.EOF {
				ending = "EClean"
			} else if derr == io.ErrUnexpectedEOF {
				ending = "ETruncated"
			} else {
				items = append(items, "IBad")
			}
			break
		}
		res.hist(fmt.Sprintf("inbound-written-messages:%d", nmsg))
		receiverSet := !r.chance(6)
		label := fmt.Sprintf("inbound receiver-set=%v peer=%d items=%v ending=%s tail=%x", receiverSet, peerTok, items, ending, tailBytes)
		res.CaseLabels = append(res.CaseLabels, label)
		if onlyCase != 0 && onlyCase != id {
			continue
		}
		h := &fakeHost{self: peerOf(1)}
		n := dtnet.NewFromLibp2pHost(h)
		rc := &recvDouble{}
		stream := &fakeStream{proto: datatransfer.ProtocolDataTransfer1_2, conn: &fakeConn{remote: peerOf(peerTok)}, in: bytes.NewReader(buf.Bytes())}
		panicked := ""
		serve := func(handler network.StreamHandler) {
			defer func() {
				if p := recover(); p != nil {
					panicked = fmt.Sprint(p)
				}
			}()
			handler(stream)
		}
		// in some cases the stream arrives the moment the protocol handler is registered, i.e. while SetDelegate is
		// still running: a message accepted then is dispatched like any other
		early := receiverSet && id%3 == 0
		if early {
			h.eager = serve
			label += " (stream opened while SetDelegate runs)"
			res.CaseLabels[len(res.CaseLabels)-1] = label
		}
		if receiverSet {
			n.SetDelegate(rc)
		} else {
			n.SetDelegate(nil)
		}
		if !early {
			serve(h.handlers[datatransfer.ProtocolDataTransfer1_2])
		}
		if panicked != "" {
			fail(id, "inbound-panic", "handling an inbound stream panicked: "+panicked, label, nil, nil)
			continue
		}
		bad := len(items) > 0 && items[len(items)-1] == "IBad"
		// ReceiveError is reported from a goroutine
		deadline := time.Now().Add(2 * time.Second)
		for bad && receiverSet && time.Now().Before(deadline) {
			rc.mu.Lock()
			e := rc.errs
			rc.mu.Unlock()
			if e > 0 {
				break
			}
			time.Sleep(100 * time.Microsecond)
		}
		if !bad {
			time.Sleep(300 * time.Microsecond)
		}
		rc.mu.Lock()
		calls := append([]recvCall(nil), rc.calls...)
		nerr := rc.errs
		rc.mu.Unlock()
		stream.mu.Lock()
		reset := false
		for _, o := range stream.ops {
			reset = reset || o == 2
		}
		stream.mu.Unlock()
		// ----- direct monitors -----
		if receiverSet {
			if len(calls) != len(want) {
				fail(id, "inbound-dispatch-count", "the number of handler calls is not the number of well-formed messages before the first malformed one", label, len(calls), len(want))
			} else {
				for q := range want {
					if calls[q] != want[q] {
						fail(id, "inbound-dispatch-wrong", "a message was handed to the wrong handler, with the wrong peer, or out of order", label, fmt.Sprint(calls[q]), fmt.Sprint(want[q]))
						break
					}
				}
			}
			if bad && (!reset || nerr != 1) {
				fail(id, "malformed-not-reset-or-reported", "a malformed stream was not reset / not reported exactly once", label, fmt.Sprintf("reset=%v errors=%d", reset, nerr), "reset, 1 error")
			}
			if !bad && (reset || nerr != 0) {
				fail(id, "wellformed-stream-reset", "a well-formed stream was reset or reported as an error", label, fmt.Sprintf("reset=%v errors=%d", reset, nerr), "no reset, no error")
			}
		} else if len(calls) != 0 || !reset {
			fail(id, "no-receiver-not-reset", "without a receiver the stream must be reset and nothing dispatched", label, nil, nil)
		}
		var cs []string
		for _, c := range calls {
			cs = append(cs, fmt.Sprintf("(%s, %s, %s)", coqN(uint64(c.Kind)), coqN(uint64(c.Peer)), coqN(c.ID)))
		}
		lines = append(lines, fmt.Sprintf("  NIn %s %s %s %s %s %s %s %s", coqN(uint64(id)), coqBool(receiverSet), coqN(uint64(peerTok)), coqList(items), ending, coqList(cs), coqBool(reset), coqBool(nerr > 0)))
		res.hist("inbound-ending:" + ending)
		res.hist(fmt.Sprintf("inbound-decodable-messages:%d", len(want)))
		res.distinct(label)
	}
	res.Cases = len(lines)
	res.Distinct = len(lines)
	res.Rule = "outbound: configured attempts {1,2,3,4,0,2.5} x succeeding attempt (1..max, never) x context cancelled during each earlier back-off x {all ok, close fails, write fails, write+reset fail, protocol unknown}, SendMessage and ConnectWithRetry, every message kind; generated open patterns with successes hidden behind the cap; inbound: 0-4 well-formed messages of every kind followed by clean EOF / truncation / 4 flavours of garbage, receiver set or not, 3 remote peers"
	const shard = 600
	for i := 0; i*shard < len(lines) || i == 0; i++ {
		lo, hi := i*shard, (i+1)*shard
		if hi > len(lines) {
			hi = len(lines)
		}
		body := "From Coq Require Import List NArith Bool Arith.\nFrom DT Require Import Net NetCorr.\nImport ListNotations.\n\nDefinition cases : list ncase := [\n" +
			strings.Join(lines[lo:hi], ";\n") + "\n].\n\nDefinition M := Eval vm_compute in mismatches cases.\nPrint M.\n"
		writeFile(filepath.Join(dir, fmt.Sprintf("cases_net_%03d.v", i)), body)
	}
	res.write(dir)
}
