package main

import (
	"context"
	"fmt"
	"strings"
	"sync"
	"time"

	"github.com/ipfs/go-graphsync"
	cidlink "github.com/ipld/go-ipld-prime/linking/cid"

	"github.com/filecoin-project/go-data-transfer/v2/transport/graphsync/testharness"
)

// ---------- transport suites (C16, C09 close, C10 transport part) ----------

type trSuite struct {
	name  string
	res   *suiteResult
	cases []tCaseOut
	id    int
}

func (s *trSuite) run(label string, steps []tStep) {
	s.id++
	var names []string
	for _, st := range steps {
		names = append(names, st.String())
	}
	full := label + " :: " + strings.Join(names, " ; ")
	s.res.CaseLabels = append(s.res.CaseLabels, full)
	if onlyCase != 0 && onlyCase != s.id {
		return
	}
	r := newTrRig(s.res, 1)
	out := tCaseOut{id: s.id}
	owner := map[uint64]chidTok{} // the harness's own request -> channel table
	queued := map[chidTok]int{}   // messages handed to ResumeChannel while the requester was away, not yet delivered
	regd := map[chidTok]bool{}    // per-channel stores graphsync has registered (the harness's own count of its registry)
	nextOut := uint64(100)
	for i, st := range steps {
		chansBefore, _, alive := r.snapshot()
		if !alive {
			prev := "the start"
			if i > 0 {
				prev = steps[i-1].String()
			}
			for _, prop := range []string{"C20", "C16", "C09"} {
				s.res.fail(monitorFailure{Property: prop, CaseID: s.id, Signature: "channel-lock-left-held", Input: fmt.Sprintf("%s @step %d", full, i),
					What: "after " + prev + " returned, the transport's bookkeeping can no longer be read: a lock of the transport or of a channel was left held, every later call on that channel (and Shutdown) blocks"})
			}
			break
		}
		o := r.exec(st)
		out.steps = append(out.steps, st)
		out.obs = append(out.obs, o)
		where := fmt.Sprintf("%s @step %d %s", full, i+1, st.String())
		fail := func(prop, sig, what string) {
			s.res.fail(monitorFailure{Property: prop, CaseID: s.id, Signature: sig, What: what, Input: where})
		}
		if o.Hang {
			fail("C09", "transport-call-hangs:"+st.Kind, "a transport call did not return within 4s")
			fail("C20", "transport-call-hangs:"+st.Kind, "a transport call did not return within 4s")
			break
		}
		if o.Panic != "" {
			fail("C16", "transport-panic:"+st.Kind, "a transport call panicked: "+o.Panic)
			break
		}
		// ----- direct monitors -----
		// C16: a registered per-channel store is the channel's for its whole lifetime: used by every request
		// opened or answered for the channel, unregistered by cleanup and by nothing else
		hadStore := map[chidTok]bool{}
		for k, v := range regd {
			hadStore[k] = v
		}
		for _, c := range o.Cmds {
			if c.Kind == "GRegisterStore" && c.OK {
				regd[c.K] = true
			}
			if c.Kind == "GUnregisterStore" {
				if st.Kind != "cleanup" || st.K != c.K {
					fail("C16", "store-unregistered-outside-cleanup", "a channel's store was unregistered by something other than the channel's cleanup")
				}
				delete(regd, c.K)
			}
		}
		if st.Kind == "cleanup" && hadStore[st.K] && regd[st.K] {
			fail("C16", "store-left-registered-after-cleanup", "the channel's store is still registered with graphsync after the channel's cleanup")
		}
		if st.Kind == "open" && hadStore[st.K] && o.Ret != nil && *o.Ret && (o.Store == nil || *o.Store != st.K) {
			fail("C16", "channel-store-not-used", "a request opened for a channel that has a registered store does not use that store")
		}
		switch st.Kind {
		case "open":
			owner[nextOut] = st.K
			// C10: skip exactly the blocks already received; cancel the previous request first
			sawCancel, sawReq := -1, -1
			for ci, c := range o.Cmds {
				if c.Kind == "GCancel" && sawCancel < 0 {
					sawCancel = ci
				}
				if c.Kind == "GRequest" {
					sawReq = ci
					if (st.Received == nil) != (c.Skip == nil) || (st.Received != nil && *c.Skip != *st.Received) {
						fail("C10", "skip-count-differs", "the restart request does not tell the sender to skip exactly the recorded number of received blocks")
					}
				}
			}
			if cb, ok := chansBefore[r.chidReal(st.K)]; ok && cb.RequestID != nil && !cb.RequesterCancelled {
				if sawCancel < 0 || sawCancel > sawReq {
					fail("C10", "previous-request-not-cancelled-first", "a new request was started without first cancelling the channel's previous request")
				}
			}
			nextOut++
		case "gincomingrequest":
			if st.Msg == nil {
				if len(o.Calls) != 0 || o.Valid || o.Term || len(o.Sent) != 0 {
					fail("C16", "no-extension-not-silent", "a graphsync request without a data-transfer extension produced calls or hook actions")
				}
			} else {
				want := chidTok{st.P, 1, st.Msg.Tid}
				if !st.Msg.IsReq {
					want = chidTok{1, st.P, st.Msg.Tid}
				}
				for _, c := range o.Calls {
					if c.K != want {
						fail("C16", "channel-id-not-from-authenticated-peer", "the channel id of an incoming request is not built from the graphsync peer")
					}
				}
				if o.Valid && hadStore[want] && (o.Store == nil || *o.Store != want) {
					fail("C16", "channel-store-not-used", "a request answered for a channel that has a registered store does not use that store")
				}
				if o.Valid {
					owner[st.Rid] = want
					// C10: messages queued while the requester was away are delivered once, now
					if cb, ok := chansBefore[r.chidReal(want)]; ok && cb.RequesterCancelled {
						n := 0
						for _, e := range o.Sent {
							if e.Set == 0 {
								n++
							}
						}
						if n != cb.PendingExtensions {
							fail("C10", "pending-messages-not-delivered-once", fmt.Sprintf("%d queued messages, %d delivered on the next request", cb.PendingExtensions, n))
						}
						// ... counted by the harness itself, not read from the transport's bookkeeping
						if n != queued[want] {
							fail("C10", "queued-messages-not-delivered-exactly-once", fmt.Sprintf("%d messages were queued while the requester was away since the last delivery, %d were delivered on this request", queued[want], n))
							fail("C16", "queued-messages-not-delivered-exactly-once", fmt.Sprintf("a resume issued while the channel had no live request must reach the next request once: %d queued since the last delivery, %d delivered on this request", queued[want], n))
						}
						queued[want] = 0
					}
				}
			}
		case "cleanup":
			delete(queued, st.K)
			for rid, k := range owner {
				if k == st.K {
					delete(owner, rid)
				}
			}
			ch, rq, _ := r.snapshot()
			if _, ok := ch[r.chidReal(st.K)]; ok {
				fail("C16", "channel-tracked-after-cleanup", "the channel is still tracked after cleanup")
			}
			for _, k := range rq {
				if r.chidTokOf(k) == st.K {
					fail("C16", "request-mapping-left-after-cleanup", "a request -> channel mapping survives the channel's cleanup")
				}
			}
			if cb, ok := chansBefore[r.chidReal(st.K)]; ok && cb.StoreRegistered {
				found := false
				for _, c := range o.Cmds {
					if c.Kind == "GUnregisterStore" && c.K == st.K {
						found = true
					}
				}
				if !found {
					fail("C16", "store-not-unregistered", "the per-channel store stayed registered after cleanup")
				}
			}
		case "gprocessing", "gincomingblock", "goutgoingblock", "gblocksent", "gcompleted", "gupdated", "gincomingresponse", "gsenderror", "grequestorcancelled":
			k, known := owner[st.Rid]
			for _, c := range o.Calls {
				if !known {
					fail("C16", "event-for-unknown-request:"+st.Kind, "a callback for an unknown request (or after cleanup) produced a channel event")
				} else if c.K != k {
					fail("C16", "event-for-wrong-channel:"+st.Kind, "a callback was reported for a channel that does not own the request")
				}
			}
			// C05 / C16: a data-transfer message riding on a graphsync response or update is handed to the manager
			// only when the graphsync-authenticated peer it came from is the channel's counterparty
			if (st.Kind == "gincomingresponse" || st.Kind == "gupdated") && known {
				other := k.Init
				if k.Init == 1 {
					other = k.Resp
				}
				for _, c := range o.Calls {
					if (c.Name == "HRequestReceived" || c.Name == "HResponseReceived") && st.P != other {
						fail("C05", "message-of-a-stranger-reported:"+st.Kind, "a data-transfer message that arrived on this channel's graphsync request from a peer that is not the channel's counterparty was handed to the manager: a third peer can cancel / complete / fail the channel")
						fail("C16", "message-of-a-stranger-reported:"+st.Kind, "a graphsync callback carrying a data-transfer message was reported for a channel although the graphsync-authenticated peer is not a party of that channel")
					}
				}
			}
			// a data-transfer message riding on a graphsync request is reported only for the channel it names, and
			// that is the channel owning the request
			for _, c := range o.Calls {
				if (c.Name == "HRequestReceived" || c.Name == "HResponseReceived") && c.Msg != nil && c.Msg.Tid != c.K.Tid {
					fail("C16", "message-of-another-transfer-reported:"+st.Kind, "a data-transfer message naming another transfer was reported for the channel that owns the graphsync request it arrived on")
					fail("C05", "message-of-another-transfer-reported:"+st.Kind, "a message naming another transfer was accepted on this channel's graphsync request: the sender can cancel / complete / fail a channel its message does not name")
				}
			}
			// C11: when the events handler answers "stay paused" (ErrPause) to a message of the counterparty,
			// the transport must keep the request paused, not terminate it
			if (st.Kind == "gincomingresponse" || st.Kind == "gupdated") && known && o.Term {
				present := 0
				if st.Msg != nil {
					present++
				}
				if st.M2 != nil {
					present++
				}
				sawErr := false
				sawPause := false
				for i := 0; i < len(o.Calls) && i < len(st.Oracle); i++ {
					sawErr = sawErr || st.Oracle[i].Ret == 2
					sawPause = sawPause || st.Oracle[i].Ret == 1
				}
				if present > 0 && len(o.Calls) == present && !sawErr && sawPause {
					fail("C11", "stay-paused-terminates-request:"+st.Kind, "the events handler answered 'stay paused' to the counterparty's message and the transport terminated the graphsync request instead of keeping it paused")
				}
			}
			if !known && (o.Term || o.PauseReq || o.PauseResp || len(o.Sent) != 0 || len(o.Upd) != 0) {
				fail("C16", "action-for-unknown-request:"+st.Kind, "a callback for an unknown request produced hook actions")
			}
			if (st.Kind == "goutgoingblock" || st.Kind == "gblocksent") && !st.OnWire && len(o.Calls) != 0 {
				fail("C16", "off-wire-block-accounted", "a block that was not put on the wire produced queued/sent accounting")
				fail("C07", "off-wire-block-accounted", "a block that was not put on the wire (skipped after a restart) was reported as queued / sent and would be counted")
			}
			if st.Kind == "gincomingblock" && known && len(o.Calls) == 1 && o.Calls[0].Unique != st.OnWire {
				fail("C07", "received-unique-flag", "a received block's uniqueness is not 'was on the wire'")
				fail("C16", "received-unique-flag", "a received block that was not on the wire (already in the local store) was accounted as received data")
			}
			if st.Kind == "gcompleted" && known {
				switch st.Status {
				case 1:
					if len(o.Calls) != 0 {
						fail("C16", "cancelled-reported-as-completed", "a cancelled response was reported as a completion")
					}
				default:
					if len(o.Calls) != 1 || o.Calls[0].Name != "HChannelCompleted" || o.Calls[0].Failed != (st.Status != 0) {
						fail("C16", "completion-report", "a completed response was not reported exactly once with an error iff it did not complete in full")
					}
				}
			}
		case "gdone":
			// C16 / C10 / C09: the end of our own graphsync request is a cancellation when the LAST thing it reported is
			// one (a restart or a close cancels the previous request; errors reported earlier, such as a block the remote
			// misses, do not turn that into a failed completion)
			if st.Done == 1 || st.Done == 2 {
				for _, c := range o.Calls {
					if c.Name == "HChannelCompleted" {
						for _, prop := range []string{"C16", "C10", "C09"} {
							fail(prop, "cancelled-request-reported-as-completed", "a graphsync request that ended by cancellation was reported to the manager as a (failed) completion: closing or restarting the channel fails it")
						}
					}
				}
			}
		case "grecverror":
			// C05 / C16: a receive error on the connection to peer P concerns the channels with P, nobody else's
			for _, c := range o.Calls {
				if c.K.Init != st.P && c.K.Resp != st.P {
					fail("C05", "receive-error-of-another-peer-hits-channel", "a network receive error caused by one peer was reported for a channel that peer is no party to")
					fail("C16", "receive-error-of-another-peer-hits-channel", "a network receive error was reported for a channel whose counterparty is not the peer the error came from")
				}
			}
		case "pause", "resume", "close":
			if cb, ok := chansBefore[r.chidReal(st.K)]; ok && st.Kind == "resume" && st.Msg != nil && cb.RequesterCancelled && cb.RequestID != nil {
				queued[st.K]++
			}
			if cb, ok := chansBefore[r.chidReal(st.K)]; ok {
				for _, c := range o.Cmds {
					if (c.Kind == "GPause" || c.Kind == "GUnpause" || c.Kind == "GCancel") && (cb.RequestID == nil || c.Rid != r.tokOfRid(*cb.RequestID)) {
						fail("C16", "command-on-stale-request:"+st.Kind, "pause/resume/cancel acted on a request that is not the channel's current one")
					}
				}
			}
		}
	}
	out.chans, out.reqs = r.snapshotCoq()
	s.cases = append(s.cases, out)
	for _, st := range out.steps {
		s.res.hist("input:" + st.Kind)
	}
	s.res.hist(fmt.Sprintf("len:%02d", len(out.steps)))
	if len(out.steps) >= 2 {
		s.res.distinct(full)
	}
	if s.id%53 == 1 {
		s.res.sample(map[string]interface{}{"case": full})
	}
}

func pullReq(tid uint64) *msgSpec  { m := newReq(tid, true); return &m }
func pushResp(tid uint64) *msgSpec { m := respOf(mtNew, tid, true, false); return &m }
func i64p(v int64) *int64          { return &v }

func runTransport(dir string, seed uint64, tier string) {
	s := &trSuite{name: "transport", res: newResult("transport", seed, tier)}
	r := newRng(seed)
	// (a) close in every request state (C09): never opened, open, cancelled by us, cancelled by remote, completed
	k := chidTok{1, 2, 5}
	kr := chidTok{2, 1, 6}
	opn := tStep{Kind: "open", To: 2, K: k, Msg: pullReq(5)}
	inc := tStep{Kind: "gincomingrequest", P: 2, Rid: 1, Msg: pullReq(6)}
	closeStates := map[string][]tStep{
		"never-opened":              {{Kind: "usestore", K: k}},
		"open":                      {opn},
		"closed-by-us":              {opn, {Kind: "close", K: k}},
		"request-finished":          {opn, {Kind: "gdone", Rid: 100, Done: 0}},
		"request-failed":            {opn, {Kind: "gdone", Rid: 100, Done: 3}},
		"responder-cancelled":       {opn, {Kind: "gdone", Rid: 100, Done: 2}},
		"cancelled-after-missing-block":           {opn, {Kind: "gdone", Rid: 100, Done: 1, PreErr: true}},
		"responder-cancelled-after-missing-block": {opn, {Kind: "gdone", Rid: 100, Done: 2, PreErr: true}},
		"finished-after-missing-block":            {opn, {Kind: "gdone", Rid: 100, Done: 0, PreErr: true}},
		"incoming-open":             {inc},
		"incoming-remote-cancelled": {inc, {Kind: "grequestorcancelled", Rid: 1}},
		"incoming-completed":        {inc, {Kind: "gcompleted", Rid: 1, Status: 0}},
	}
	// a third peer answers on our request / updates the counterparty's request (C05)
	{
		cr := msgSpec{IsReq: false, Type: mtCancel, Tid: 5}
		cq := reqOf(mtCancel, 6)
		s.run("stranger response on our request", []tStep{opn, {Kind: "gincomingresponse", P: 3, Rid: 100, Msg: &cr}, {Kind: "gincomingresponse", P: 2, Rid: 100, Msg: &cr}})
		s.run("stranger update on the counterparty's request", []tStep{inc, {Kind: "gupdated", P: 3, Rid: 1, Msg: &cq}, {Kind: "gupdated", P: 2, Rid: 1, Msg: &cq}})
	}
	for name, pre := range closeStates {
		kk := k
		if strings.HasPrefix(name, "incoming") {
			kk = kr
		}
		for _, tail := range [][]tStep{{{Kind: "close", K: kk}}, {{Kind: "close", K: kk}, {Kind: "close", K: kk}}, {{Kind: "pause", K: kk}, {Kind: "resume", K: kk, Msg: pushResp(6)}, {Kind: "close", K: kk}, {Kind: "cleanup", K: kk}},
			{{Kind: "cleanup", K: kk}, {Kind: "close", K: kk}}} {
			s.run("close state="+name, append(append([]tStep(nil), pre...), tail...))
		}
	}
	// (b) restarts: several requests per channel, pending extensions, skip counts (C10)
	for _, recv := range []int64{0, 3, 17} {
		for nq := 0; nq <= 3; nq++ {
			steps := []tStep{opn, {Kind: "open", To: 2, K: k, Received: i64p(recv), Msg: pullReq(5)}, {Kind: "open", To: 2, K: k, Received: i64p(recv + 2), Msg: pullReq(5)}}
			s.run(fmt.Sprintf("restart-requester received=%d", recv), steps)
			rs := []tStep{inc, {Kind: "grequestorcancelled", Rid: 1}}
			for q := 0; q < nq; q++ {
				rs = append(rs, tStep{Kind: "resume", K: kr, Msg: pushResp(uint64(6))})
			}
			rs = append(rs, tStep{Kind: "resume", K: kr}, tStep{Kind: "gincomingrequest", P: 2, Rid: 2, Msg: func() *msgSpec { m := restartReq(6, true); return &m }()},
				tStep{Kind: "gincomingrequest", P: 2, Rid: 3, Msg: func() *msgSpec { m := restartReq(6, true); return &m }()}, tStep{Kind: "gincomingblock", Rid: 1, Size: 5, Index: 1, OnWire: true})
			s.run(fmt.Sprintf("restart-responder queued=%d", nq), rs)
			// the requester goes away a second time: what was delivered is not delivered again
			rs2 := append(append([]tStep(nil), rs[:len(rs)-2]...), tStep{Kind: "grequestorcancelled", Rid: 2})
			if nq%2 == 1 {
				rs2 = append(rs2, tStep{Kind: "resume", K: kr, Msg: pushResp(uint64(6))})
			}
			rs2 = append(rs2, tStep{Kind: "gincomingrequest", P: 2, Rid: 3, Msg: func() *msgSpec { m := restartReq(6, true); return &m }()})
			s.run(fmt.Sprintf("restart-responder twice queued=%d", nq), rs2)
		}
	}
	// (b2) closing while the remote requester cancels (C09 / C20): graphsync delivers the requestor-cancelled
	// callback on the goroutine that also has to answer our Cancel; closing must return all the same
	for _, viaCleanup := range []bool{false, true} {
		rig := newTrRig(s.res, 1)
		rig.exec(inc)
		chs, _, _ := rig.snapshot()
		var ridReal *graphsync.RequestID
		for _, c := range chs {
			if c.RequestID != nil {
				ridReal = c.RequestID
			}
		}
		if ridReal != nil {
			rig.mu.Lock()
			rig.gs.beforeCancel = func(id graphsync.RequestID) {
				if l := rig.gs.RequestorCancelledListener; l != nil { // (Shutdown unsubscribes first)
					l(peerOf(2), testharness.NewFakeRequest(id, nil, graphsync.RequestTypeNew))
				}
			}
			rig.mu.Unlock()
			done := make(chan struct{})
			go func() {
				defer close(done)
				if viaCleanup {
					_ = rig.tr.Shutdown(context.Background())
				} else {
					_ = rig.tr.CloseChannel(context.Background(), rig.chidReal(kr))
				}
			}()
			select {
			case <-done:
			case <-time.After(3 * time.Second):
				what := "CloseChannel"
				if viaCleanup {
					what = "Shutdown"
				}
				for _, prop := range []string{"C09", "C20"} {
					s.res.fail(monitorFailure{Property: prop, CaseID: 0, Signature: "close-hangs-while-requester-cancels:" + what,
						What: what + " did not return within 3s when the remote requester's cancellation was being delivered (on graphsync's single response goroutine) at the moment the channel was closed", Input: "incoming request, then " + what + " with the requestor-cancelled callback running before graphsync answers Cancel"})
				}
			}
		}
	}
	// (b4) two restarts of one channel overlap (C10 / C16): a manual or monitor restart while a restart request of the
	// counterparty is being handled.  The cancelled request takes a while to wind down, as with the real graphsync.
	// Whatever the interleaving, every request but the last one opened for the channel has been cancelled.
	for round := 0; round < 2; round++ {
		rig := newTrRig(s.res, 1)
		kk := chidTok{1, 2, 8}
		rig.exec(tStep{Kind: "open", To: 2, K: kk, Msg: pullReq(8)})
		rig.mu.Lock()
		rig.cmds = nil
		rig.gs.slowFinish = 120 * time.Millisecond
		rig.mu.Unlock()
		restart := func() {
			m := restartReq(8, true)
			_ = rig.tr.OpenChannel(context.Background(), peerOf(2), rig.chidReal(kk), cidlink.Link{Cid: cidOf(1)}, nodeOf(2), fakeState{received: int64(round)}, realOf(m))
		}
		var wg sync.WaitGroup
		for i := 0; i < 2; i++ {
			wg.Add(1)
			go func() { defer wg.Done(); restart() }()
			time.Sleep(30 * time.Millisecond)
		}
		done := make(chan struct{})
		go func() { wg.Wait(); close(done) }()
		select {
		case <-done:
		case <-time.After(6 * time.Second):
			for _, prop := range []string{"C10", "C20"} {
				s.res.fail(monitorFailure{Property: prop, Signature: "overlapping-restarts-hang", What: "two overlapping restarts of one channel did not both return within 6s", Input: "open, then two OpenChannel (restart) calls 30 ms apart; cancelled requests end 120 ms after Cancel"})
			}
			continue
		}
		time.Sleep(200 * time.Millisecond)
		rig.mu.Lock()
		opened, cancelled := 0, 0
		for _, c := range rig.cmds {
			switch c.Kind {
			case "GRequest":
				opened++
			case "GCancel":
				cancelled++
			}
		}
		rig.mu.Unlock()
		if opened != cancelled {
			for _, prop := range []string{"C10", "C16"} {
				s.res.fail(monitorFailure{Property: prop, Signature: "previous-request-not-cancelled-before-new-one",
					What:     "after two overlapping restarts of one channel more than one graphsync request of the channel is alive: a previous request was not cancelled before the new one started",
					Input:    "open, then two OpenChannel (restart) calls 30 ms apart; cancelled requests end 120 ms after Cancel",
					Observed: fmt.Sprintf("%d requests opened by the restarts, %d cancelled (one was alive before)", opened, cancelled), Expected: "as many cancelled as opened"})
			}
		}
	}
	// (b3) pausing / resuming while graphsync's response goroutine is running one of our hooks for the same
	// channel (the requester cancelled, or sent the channel's next request): graphsync answers Pause / Unpause
	// from that very goroutine, so the call must not hold anything the hook needs
	for _, op := range []string{"PauseChannel", "ResumeChannel"} {
		for _, hookKind := range []string{"requestor-cancelled", "next-request"} {
			rig := newTrRig(s.res, 1)
			rig.exec(inc)
			rig.mu.Lock()
			rig.gs.beforeCancel = func(id graphsync.RequestID) {
				if hookKind == "requestor-cancelled" {
					if l := rig.gs.RequestorCancelledListener; l != nil {
						l(peerOf(2), testharness.NewFakeRequest(id, nil, graphsync.RequestTypeNew))
					}
					return
				}
				m := restartReq(6, true)
				rig.deliverIncomingRequest(2, 7, &m)
			}
			rig.mu.Unlock()
			done := make(chan struct{})
			go func() {
				defer close(done)
				if op == "PauseChannel" {
					_ = rig.tr.PauseChannel(context.Background(), rig.chidReal(kr))
				} else {
					_ = rig.tr.ResumeChannel(context.Background(), nil, rig.chidReal(kr))
				}
			}()
			select {
			case <-done:
			case <-time.After(3 * time.Second):
				for _, prop := range []string{"C20", "C16"} {
					s.res.fail(monitorFailure{Property: prop, CaseID: 0, Signature: "transport-call-deadlocks-with-hook:" + op + ":" + hookKind,
						What:  op + " did not return within 3s: it holds the channel's lock while waiting for graphsync, whose response goroutine is running the " + hookKind + " hook for the same channel and waits for that lock",
						Input: "incoming request, then " + op + " while graphsync delivers " + hookKind + " before answering"})
				}
			}
		}
	}
	// (c) generated callback sequences over several channels and requests, cleanup anywhere
	n := 250
	if tier == "thorough" {
		n = 5000
	}
	for i := 0; i < n; i++ {
		s.run(fmt.Sprintf("walk %d", i), genTransportWalk(r))
	}
	s.res.Cases = len(s.cases)
	s.res.Rule = "close / pause / resume / cleanup in 9 request states; requester and responder restarts with 0-3 queued messages and skip counts; generated sequences of 8-40 graphsync callbacks and transport calls over 1-4 channels with 1-3 requests each, cleanup at random points, unknown request ids, requests without or with foreign extensions, all completion statuses, scripted handler answers (nil / ErrPause / error / message); non-trivial = at least 2 steps"
	writeTCases(dir, "transport", s.cases)
	s.res.write(dir)
}

func genTransportWalk(r *rng) []tStep {
	var steps []tStep
	type ch struct {
		k    chidTok
		out  bool
		rids []uint64
	}
	var chans []*ch
	tidsOf := func() []uint64 {
		var out []uint64
		for _, c := range chans {
			out = append(out, c.k.Tid)
		}
		return out
	}
	nextOut := uint64(100)
	nextIn := uint64(1)
	ans := func() []hAns {
		var a []hAns
		for i := 0; i < 2; i++ {
			x := hAns{}
			switch v := r.intn(10); {
			case v < 6:
			case v < 8:
				x.Ret = 1
			default:
				x.Ret = 2
			}
			if r.chance(25) {
				m := respOf(mtUpdate, 5, false, r.chance(50))
				x.Msg = &m
			}
			a = append(a, x)
		}
		return a
	}
	n := 8 + r.intn(33)
	for i := 0; i < n; i++ {
		if len(chans) == 0 || (len(chans) < 4 && r.chance(12)) {
			tid := uint64(5 + r.intn(3))
			peerTok := 2 + r.intn(2)
			if r.chance(50) {
				c := &ch{out: true}
				var m *msgSpec
				if r.chance(50) {
					c.k = chidTok{1, peerTok, tid}
					m = pullReq(tid)
				} else {
					c.k = chidTok{peerTok, 1, tid}
					m = pushResp(tid)
				}
				st := tStep{Kind: "open", To: peerTok, K: c.k, Msg: m}
				steps = append(steps, st)
				c.rids = append(c.rids, nextOut)
				nextOut++
				chans = append(chans, c)
			} else {
				c := &ch{}
				var m *msgSpec
				if r.chance(60) {
					c.k = chidTok{peerTok, 1, tid}
					m = pullReq(tid)
				} else {
					c.k = chidTok{1, peerTok, tid}
					m = pushResp(tid)
				}
				a := ans()
				if r.chance(70) {
					a[0].Ret = 0
				}
				steps = append(steps, tStep{Kind: "gincomingrequest", P: peerTok, Rid: nextIn, Msg: m, Oracle: a})
				c.rids = append(c.rids, nextIn)
				nextIn++
				chans = append(chans, c)
			}
			continue
		}
		c := chans[r.intn(len(chans))]
		rid := c.rids[r.intn(len(c.rids))]
		if r.chance(8) {
			rid = 77 // unknown request
		}
		peerTok := c.k.Resp
		if c.k.Resp == 1 {
			peerTok = c.k.Init
		}
		if r.chance(8) {
			peerTok = 4
		}
		var st tStep
		switch x := r.intn(100); {
		case x < 8:
			st = tStep{Kind: "gprocessing", Rid: rid}
		case x < 22:
			st = tStep{Kind: "gincomingblock", Rid: rid, Size: uint64(1 + r.intn(50)), Index: int64(1 + r.intn(5)), OnWire: !r.chance(20)}
		case x < 34:
			st = tStep{Kind: "goutgoingblock", Rid: rid, Size: uint64(1 + r.intn(50)), Index: int64(1 + r.intn(5)), OnWire: !r.chance(25)}
		case x < 42:
			st = tStep{Kind: "gblocksent", Rid: rid, Size: uint64(1 + r.intn(50)), Index: int64(1 + r.intn(5)), OnWire: !r.chance(25)}
		case x < 48:
			st = tStep{Kind: "gcompleted", Rid: rid, Status: r.intn(3)}
		case x < 56:
			var m *msgSpec
			switch r.intn(4) {
			case 0:
				x := reqOf(mtUpdate, c.k.Tid)
				m = &x
			case 1:
				x := msgSpec{IsReq: true, Type: mtVoucher, Tid: c.k.Tid, VType: "T1", VNode: 5}
				m = &x
			case 2:
				x := respOf(mtUpdate, c.k.Tid, false, true)
				m = &x
			}
			if m != nil && r.chance(15) {
				m.Tid = otherTid(tidsOf(), c.k.Tid, r) // a message of another transfer on this channel's request
			}
			st = tStep{Kind: "gupdated", P: peerTok, Rid: rid, Msg: m}
		case x < 64:
			var m1, m2 *msgSpec
			if r.chance(70) {
				x := respOf([]uint64{mtNew, mtUpdate, mtComplete, mtVoucherResult}[r.intn(4)], c.k.Tid, true, r.chance(30))
				m1 = &x
			}
			if r.chance(30) {
				x := respOf(mtUpdate, c.k.Tid, false, true)
				m2 = &x
			}
			if r.chance(10) {
				x := reqOf(mtUpdate, c.k.Tid)
				m1 = &x
			}
			if m1 != nil && r.chance(15) {
				m1.Tid = otherTid(tidsOf(), c.k.Tid, r)
			}
			if m2 != nil && r.chance(15) {
				m2.Tid = otherTid(tidsOf(), c.k.Tid, r)
			}
			st = tStep{Kind: "gincomingresponse", P: peerTok, Rid: rid, Msg: m1, M2: m2}
		case x < 68:
			st = tStep{Kind: "grequestorcancelled", Rid: rid}
		case x < 72:
			st = tStep{Kind: "gsenderror", Rid: rid}
		case x < 75:
			st = tStep{Kind: "grecverror", P: peerTok}
		case x < 80:
			if c.out && len(c.rids) > 0 {
				st = tStep{Kind: "gdone", Rid: c.rids[len(c.rids)-1], Done: r.intn(4), PreErr: r.chance(35)}
			} else {
				st = tStep{Kind: "gprocessing", Rid: rid}
			}
		case x < 84:
			st = tStep{Kind: "pause", K: c.k}
		case x < 89:
			var m *msgSpec
			if r.chance(60) {
				x := respOf(mtUpdate, c.k.Tid, false, false)
				m = &x
			}
			st = tStep{Kind: "resume", K: c.k, Msg: m}
		case x < 92:
			st = tStep{Kind: "close", K: c.k}
		case x < 95:
			st = tStep{Kind: "cleanup", K: c.k}
		case x < 97:
			st = tStep{Kind: "usestore", K: c.k}
		default:
			// another request for the same channel (restart)
			if c.out {
				m := pullReq(c.k.Tid)
				if c.k.Init != 1 {
					m = pushResp(c.k.Tid)
				}
				to := c.k.Resp
				if to == 1 {
					to = c.k.Init
				}
				st = tStep{Kind: "open", To: to, K: c.k, Received: i64p(int64(r.intn(9))), Msg: m}
				c.rids = append(c.rids, nextOut)
				nextOut++
			} else {
				m := restartReq(c.k.Tid, true)
				p := c.k.Init
				var mm *msgSpec = &m
				if c.k.Init == 1 {
					p = c.k.Resp
					mm = pushResp(c.k.Tid)
				}
				a := ans()
				a[0].Ret = r.intn(2)
				st = tStep{Kind: "gincomingrequest", P: p, Rid: nextIn, Msg: mm, Oracle: a}
				c.rids = append(c.rids, nextIn)
				nextIn++
			}
		}
		if st.Oracle == nil {
			st.Oracle = ans()
		}
		if st.Kind == "open" {
			st.Oracle = nil // OnChannelOpened succeeds: the manager's handler only fails for unknown channels
		}
		if r.chance(3) {
			st = tStep{Kind: "gincomingrequest", P: 3, Rid: 60 + uint64(r.intn(3))} // a graphsync request that is not ours
		}
		if r.chance(5) && c.k.Resp == 1 {
			// a graphsync request that carries some other kind of data-transfer request (cancel, update, voucher)
			kinds := []msgSpec{reqOf(mtCancel, c.k.Tid), reqOf(mtCancel, c.k.Tid), {IsReq: true, Type: mtUpdate, Tid: c.k.Tid, Pause: true},
				{IsReq: true, Type: mtVoucher, Tid: c.k.Tid, VType: "T1", VNode: 4}}
			m := kinds[r.intn(len(kinds))]
			st = tStep{Kind: "gincomingrequest", P: c.k.Init, Rid: 80 + uint64(r.intn(3)), Msg: &m, Oracle: ans()}
			if m.Type != mtCancel {
				c.rids = append(c.rids, st.Rid)
			}
		}
		steps = append(steps, st)
	}
	return steps
}

// otherTid picks the transfer id of another tracked channel if there is one, else the next id
func otherTid(tids []uint64, tid uint64, r *rng) uint64 {
	var others []uint64
	for _, t := range tids {
		if t != tid {
			others = append(others, t)
		}
	}
	if len(others) > 0 && r.chance(70) {
		return others[r.intn(len(others))]
	}
	return tid + 1
}
