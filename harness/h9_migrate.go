package main

import (
	"bytes"
	"context"
	"errors"
	"fmt"
	"path/filepath"
	"sort"
	"strings"
	"sync"
	"time"

	"github.com/ipfs/go-datastore"
	"github.com/ipfs/go-datastore/query"

	datatransfer "github.com/filecoin-project/go-data-transfer/v2"
	"github.com/filecoin-project/go-data-transfer/v2/channels"
	"github.com/filecoin-project/go-data-transfer/v2/impl"
)

// ---------- H9: opening a version-2 datastore (C13) ----------

func coqChan2(st *channels.VerifChannelStateV2, res *suiteResult) string {
	var vs, rs []string
	for _, v := range st.Vouchers {
		vs = append(vs, coqVoucher(v.Type, tokOfNode(v.Voucher.Node)))
	}
	for _, v := range st.VoucherResults {
		rs = append(rs, coqVoucher(v.Type, tokOfNode(v.VoucherResult.Node)))
	}
	stages := "None"
	if st.Stages != nil {
		stages = "Some " + coqStages(st.Stages, res)
	}
	return fmt.Sprintf("(mkChan2 %s %s %s %s %s %s %s %s %s %s %s %s %s %s %s %s %s %s %s %s %s (%s))",
		coqN(uint64(tokOfPeer(st.SelfPeer))), coqN(uint64(st.TransferID)), coqN(uint64(tokOfPeer(st.Initiator))),
		coqN(uint64(tokOfPeer(st.Responder))), coqN(uint64(tokOfCid(st.BaseCid))), coqN(uint64(tokOfNode(st.Selector.Node))),
		coqN(uint64(tokOfPeer(st.Sender))), coqN(uint64(tokOfPeer(st.Recipient))), coqN(st.TotalSize),
		statusName(st.Status), coqN(st.Queued), coqN(st.Sent), coqN(st.Received), coqStr(st.Message),
		coqList(vs), coqList(rs), coqZ(st.ReceivedBlocksTotal), coqZ(st.QueuedBlocksTotal), coqZ(st.SentBlocksTotal),
		coqN(st.DataLimit), coqBool(st.RequiresFinalization), stages)
}

func randV2(r *rng, tid uint64, status datatransfer.Status) *channels.VerifChannelStateV2 {
	pull := r.chance(50)
	selfInit := r.chance(50)
	st := &channels.VerifChannelStateV2{SelfPeer: peerOf(1), TransferID: datatransfer.TransferID(tid), BaseCid: cidOf(1 + r.intn(3)),
		Selector: channels.VerifNode{Node: nodeOf(1 + r.intn(4))}, Status: status}
	other := peerOf(2 + r.intn(3))
	if selfInit {
		st.Initiator, st.Responder = peerOf(1), other
	} else {
		st.Initiator, st.Responder = other, peerOf(1)
	}
	if pull {
		st.Sender, st.Recipient = st.Responder, st.Initiator
	} else {
		st.Sender, st.Recipient = st.Initiator, st.Responder
	}
	big := func() uint64 {
		switch r.intn(5) {
		case 0:
			return 0
		case 1:
			return 1<<64 - 1 - uint64(r.intn(5))
		case 2:
			return 1 << 63
		}
		return uint64(r.intn(100000))
	}
	st.TotalSize, st.Queued, st.Sent, st.Received, st.DataLimit = big(), big(), big(), big(), big()
	idx := func() int64 {
		switch r.intn(4) {
		case 0:
			return 0
		case 1:
			return 1<<63 - 1
		}
		return int64(r.intn(5000))
	}
	st.ReceivedBlocksTotal, st.QueuedBlocksTotal, st.SentBlocksTotal = idx(), idx(), idx()
	st.RequiresFinalization = r.chance(40)
	msgs := []string{"", "m", "previous error: connection reset", "é世界", strings.Repeat("x", 300)}
	st.Message = msgs[r.intn(len(msgs))]
	for i := 0; i < r.intn(4); i++ {
		st.Vouchers = append(st.Vouchers, channels.VerifEncodedVoucher{Type: datatransfer.TypeIdentifier(fmt.Sprintf("T%d", r.intn(3))), Voucher: channels.VerifNode{Node: nodeOf(1 + r.intn(6))}})
	}
	for i := 0; i < r.intn(3); i++ {
		st.VoucherResults = append(st.VoucherResults, channels.VerifEncodedVoucherResult{Type: datatransfer.TypeIdentifier(fmt.Sprintf("R%d", r.intn(3))), VoucherResult: channels.VerifNode{Node: nodeOf(1 + r.intn(6))}})
	}
	if !r.chance(25) {
		st.Stages = &datatransfer.ChannelStages{}
		for i := 0; i < r.intn(4); i++ {
			name := statusName(datatransfer.Status(r.intn(19)))
			for j := 0; j <= r.intn(3); j++ {
				st.Stages.AddLog(name, fmt.Sprintf("log line %d", r.intn(4)))
			}
		}
	}
	return st
}

// a minimal native (version 3) record for the same id space
func randV3(r *rng, tid uint64) *channels.VerifChannelState {
	s := seedVariants(datatransfer.Status(r.intn(19)), tid, 1)[r.intn(4)]
	return s
}

func runMigrate(dir string, seed uint64, tier string) {
	res := newResult("migrate", seed, tier)
	r := newRng(seed)
	curTids, canonText = nil, false
	n := 400
	if tier == "thorough" {
		n = 3000
	}
	var lines []string
	fail := func(id int, sig, what, input string, obs, exp interface{}) {
		res.fail(monitorFailure{Property: "C13", CaseID: id, Signature: sig, What: what, Input: input, Observed: obs, Expected: exp})
	}
	// the numbers statuses are stored under are part of the on-disk format (records of earlier builds and of schema
	// version 2 carry them): a stored record keeps meaning what it meant.  The table below is the published numbering,
	// written out here, not taken from the repository's constants
	published := []string{"Requested", "Ongoing", "TransferFinished", "ResponderCompleted", "Finalizing", "Completing", "Completed", "Failing",
		"Failed", "Cancelling", "Cancelled", "InitiatorPaused", "ResponderPaused", "BothPaused", "ResponderFinalizing",
		"ResponderFinalizingTransferFinished", "ChannelNotFoundError", "Queued", "AwaitingAcceptance"}
	for code, name := range published {
		if got := datatransfer.Statuses[datatransfer.Status(code)]; got != name {
			for _, prop := range []string{"C13", "C06"} {
				res.fail(monitorFailure{Property: prop, CaseID: 0, Signature: "stored-status-renumbered",
					What:     fmt.Sprintf("a channel record stored with status number %d (%s in every earlier build and in schema version 2) is now read as %s", code, name, got),
					Input:    fmt.Sprintf("any datastore written before the change that holds a channel in status %s", name),
					Observed: got, Expected: name})
			}
		}
	}
	statusCursor := 0
	for id := 1; id <= n; id++ {
		version := 2
		switch x := r.intn(20); {
		case x == 0:
			version = 0
		case x < 3:
			version = 3
		}
		nch := 1 + r.intn(5)
		if version == 0 {
			nch = 0
		}
		conflict := version == 2 && r.chance(7)
		var v2 []*channels.VerifChannelStateV2
		var v3 []*channels.VerifChannelState
		ds := newRecDS()
		ctx := context.Background()
		keyTok := map[string]int{}
		var desc []string
		for i := 0; i < nch; i++ {
			tid := uint64(id*100 + i)
			if version == 3 {
				st := randV3(r, tid)
				v3 = append(v3, st)
				var buf bytes.Buffer
				if err := st.MarshalCBOR(&buf); err != nil {
					panic(err)
				}
				chid := datatransfer.ChannelID{Initiator: st.Initiator, Responder: st.Responder, ID: st.TransferID}
				keyTok[chid.String()] = i + 1
				_ = ds.inner.Put(ctx, datastore.NewKey("/3/"+chid.String()), buf.Bytes())
				desc = append(desc, "v3:"+statusName(st.Status))
				continue
			}
			status := datatransfer.Status(statusCursor % 19) // every status comes round
			statusCursor++
			st := randV2(r, tid, status)
			v2 = append(v2, st)
			var buf bytes.Buffer
			if err := st.MarshalCBOR(&buf); err != nil {
				panic(err)
			}
			chid := datatransfer.ChannelID{Initiator: st.Initiator, Responder: st.Responder, ID: st.TransferID}
			keyTok[chid.String()] = i + 1
			_ = ds.inner.Put(ctx, datastore.NewKey("/2/"+chid.String()), buf.Bytes())
			desc = append(desc, "v2:"+statusName(status))
			res.hist("v2-status:" + statusName(status))
			if conflict && i == 0 {
				// the same key already exists under the new version
				c3 := seedVariants(datatransfer.Ongoing, tid, 1)[0]
				c3.Initiator, c3.Responder = st.Initiator, st.Responder
				var b3 bytes.Buffer
				_ = c3.MarshalCBOR(&b3)
				_ = ds.inner.Put(ctx, datastore.NewKey("/3/"+chid.String()), b3.Bytes())
				v3 = append(v3, c3)
				desc = append(desc, "conflicting-v3")
			}
		}
		if version != 0 {
			_ = ds.inner.Put(ctx, datastore.NewKey("/versions/current"), []byte(fmt.Sprint(version)))
		}
		label := fmt.Sprintf("version=%d records=%v", version, desc)
		res.CaseLabels = append(res.CaseLabels, label)
		if onlyCase != 0 && onlyCase != id {
			continue
		}
		rig := &nodeRig{res: res, selfTok: 1, self: peerOf(1), ds: ds, tids: newTidTable(), registered: map[string]bool{}}
		m, err := impl.NewDataTransfer(ds, &netDouble{rig}, &trDouble{rig})
		if err != nil {
			panic(err)
		}
		rig.mgr = m
		ch := impl.VerifChannelsOf(m)
		// listeners registered before Start
		var lmu sync.Mutex
		calls := []int{0, 0}
		var outcomes []error
		for li := 0; li < 2; li++ {
			li := li
			m.OnReady(func(e error) {
				lmu.Lock()
				calls[li]++
				outcomes = append(outcomes, e)
				lmu.Unlock()
			})
		}
		// operations before Start must be refused
		probe := datatransfer.ChannelID{Initiator: peerOf(1), Responder: peerOf(2), ID: datatransfer.TransferID(id*100 + 99)}
		refused := func() bool {
			_, e1 := ch.GetByID(ctx, probe)
			_, e2 := ch.CreateNew(peerOf(1), probe.ID+1, cidOf(1), nodeOf(1), datatransfer.TypedVoucher{Type: "T1", Voucher: nodeOf(3)}, peerOf(1), peerOf(1), peerOf(2))
			_, e3 := m.InProgressChannels(ctx)
			notFound := e1 != nil && strings.Contains(e1.Error(), "not found")
			return e1 != nil && !notFound && e2 != nil && e3 != nil
		}
		refusedBefore := refused()
		if !refusedBefore {
			fail(id, "operation-before-migration", "a channel operation was not refused before the migration had run", label, nil, nil)
		}
		if err := m.Start(ctx); err != nil {
			panic(err)
		}
		deadline := time.Now().Add(10 * time.Second)
		for time.Now().Before(deadline) {
			lmu.Lock()
			done := calls[0] > 0 && calls[1] > 0
			lmu.Unlock()
			if done {
				break
			}
			time.Sleep(100 * time.Microsecond)
		}
		time.Sleep(500 * time.Microsecond)
		lmu.Lock()
		ready := len(outcomes) > 0 && outcomes[0] == nil
		c0, c1 := calls[0], calls[1]
		sameOutcome := len(outcomes) == 2 && (outcomes[0] == nil) == (outcomes[1] == nil)
		lmu.Unlock()
		if c0 != 1 || c1 != 1 || !sameOutcome {
			fail(id, "ready-not-announced-once", "readiness was not announced exactly once, with one outcome, to every listener registered before start", label, fmt.Sprintf("calls=%d,%d", c0, c1), "1,1")
		}
		refusedAfter := false
		if ready {
			_, e := m.InProgressChannels(ctx)
			refusedAfter = e != nil
		} else {
			refusedAfter = refused()
			if !refusedAfter {
				fail(id, "operation-after-failed-migration", "a channel operation was not refused after a failed migration", label, nil, nil)
			}
		}
		readStore := func() (recs []string, left []string, ver string, decoded map[int]*channels.VerifChannelState) {
			decoded = map[int]*channels.VerifChannelState{}
			type kv struct {
				tok int
				s   string
			}
			var l3 []kv
			qr, err := ds.inner.Query(ctx, query.Query{})
			if err != nil {
				panic(err)
			}
			ents, _ := qr.Rest()
			for _, e := range ents {
				switch {
				case strings.HasPrefix(e.Key, "/3/"):
					name := strings.TrimPrefix(e.Key, "/3/")
					tok, ok := keyTok[name]
					if !ok {
						continue // the probe / sentinel
					}
					var st channels.VerifChannelState
					if err := st.UnmarshalCBOR(bytes.NewReader(e.Value)); err != nil {
						fail(id, "migrated-record-undecodable", "a record under /3 does not decode: "+err.Error(), label, nil, nil)
						continue
					}
					decoded[tok] = &st
					l3 = append(l3, kv{tok, fmt.Sprintf("(%s, %s)", coqN(uint64(tok)), coqChanRaw(&st, res))})
				case strings.HasPrefix(e.Key, "/2/"):
					left = append(left, coqN(uint64(keyTok[strings.TrimPrefix(e.Key, "/2/")])))
				case e.Key == "/versions/current":
					ver = string(e.Value)
				}
			}
			sort.Slice(l3, func(i, j int) bool { return l3[i].tok < l3[j].tok })
			for _, x := range l3 {
				recs = append(recs, x.s)
			}
			sort.Strings(left)
			return
		}
		after, left, ver, decoded := readStore()
		if ready && version == 2 && ver != "3" {
			// readiness is announced with the migration's outcome: success only if the store was migrated
			fail(id, "ready-without-error-after-failed-migration", "listeners were told the manager is ready (no error) although the migration did not complete: the store is still at version "+ver+" and channel operations are refused", label, "nil", "the migration's error")
			_ = m.Stop(ctx)
			continue
		}
		// ----- direct monitors: every field preserved, paused statuses mapped -----
		if ready && version == 2 {
			for i, o := range v2 {
				nw := decoded[i+1]
				if nw == nil {
					fail(id, "channel-lost-in-migration", "a version-2 channel is not present after migration", label, nil, nil)
					continue
				}
				wantStatus, wantIP, wantRP := o.Status, false, false
				switch o.Status {
				case datatransfer.InitiatorPaused:
					wantStatus, wantIP = datatransfer.Ongoing, true
				case datatransfer.ResponderPaused:
					wantStatus, wantRP = datatransfer.Ongoing, true
				case datatransfer.BothPaused:
					wantStatus, wantIP, wantRP = datatransfer.Ongoing, true, true
				}
				if nw.Status != wantStatus || nw.InitiatorPaused != wantIP || nw.ResponderPaused != wantRP {
					fail(id, "status-mapping:"+statusName(o.Status), "the migrated status / pause flags are not the specified mapping", label,
						fmt.Sprintf("%s ip=%v rp=%v", statusName(nw.Status), nw.InitiatorPaused, nw.ResponderPaused), fmt.Sprintf("%s ip=%v rp=%v", statusName(wantStatus), wantIP, wantRP))
					if isTerminal(o.Status) {
						// C02: a terminated channel stays as it is across a process restart, also the one that migrates the store
						res.fail(monitorFailure{Property: "C02", CaseID: id, Signature: "terminal-changed-by-migration:" + statusName(o.Status),
							What: "a channel that had terminated before the process stopped has another status after the restart that migrated the datastore", Input: label,
							Observed: statusName(nw.Status), Expected: statusName(o.Status)})
					}
				}
				// compare every other field through the printers (the v2 printer omits the flags, so blank them)
				cp := *nw
				cp.Status, cp.InitiatorPaused, cp.ResponderPaused = o.Status, false, false
				asV2 := channels.VerifChannelStateV2{SelfPeer: cp.SelfPeer, TransferID: cp.TransferID, Initiator: cp.Initiator, Responder: cp.Responder, BaseCid: cp.BaseCid,
					Selector: cp.Selector, Sender: cp.Sender, Recipient: cp.Recipient, TotalSize: cp.TotalSize, Status: cp.Status, Queued: cp.Queued, Sent: cp.Sent,
					Received: cp.Received, Message: cp.Message, Vouchers: cp.Vouchers, VoucherResults: cp.VoucherResults, ReceivedBlocksTotal: cp.ReceivedBlocksTotal,
					QueuedBlocksTotal: cp.QueuedBlocksTotal, SentBlocksTotal: cp.SentBlocksTotal, DataLimit: cp.DataLimit, RequiresFinalization: cp.RequiresFinalization, Stages: cp.Stages}
				// C19: the views of a migrated channel agree with how it was created
				if view := channels.VerifFromInternal(*nw); view != nil {
					wasPull := o.Sender == o.Responder
					wantID := datatransfer.ChannelID{Initiator: o.Initiator, Responder: o.Responder, ID: o.TransferID}
					wantOther := o.Responder
					if o.SelfPeer == o.Responder {
						wantOther = o.Initiator
					}
					if view.IsPull() != wasPull || view.ChannelID() != wantID || view.OtherPeer() != wantOther || view.Sender() != o.Sender || view.Recipient() != o.Recipient {
						res.fail(monitorFailure{Property: "C19", CaseID: id, Signature: "migrated-channel-views-inconsistent",
							What: "the views of a channel read after the datastore migration disagree with how the channel was created (direction, channel id, other peer, sender / recipient)", Input: label,
							Observed: fmt.Sprintf("pull=%v id=%v other=%v", view.IsPull(), view.ChannelID(), view.OtherPeer()), Expected: fmt.Sprintf("pull=%v id=%v other=%v", wasPull, wantID, wantOther)})
					}
				}
				if coqChan2(&asV2, nil) != coqChan2(o, nil) {
					// C06: reopening the store yields every accessor as it was; C07: totals and indexes never change over a restart
					res.fail(monitorFailure{Property: "C06", CaseID: id, Signature: "record-changed-by-migrating-restart", What: "a channel read after the restart that migrated the datastore differs from the channel that was stored", Input: label,
						Observed: coqChan2(&asV2, nil), Expected: coqChan2(o, nil)})
					if nw.Queued != o.Queued || nw.Sent != o.Sent || nw.Received != o.Received || nw.QueuedBlocksTotal != o.QueuedBlocksTotal ||
						nw.SentBlocksTotal != o.SentBlocksTotal || nw.ReceivedBlocksTotal != o.ReceivedBlocksTotal {
						res.fail(monitorFailure{Property: "C07", CaseID: id, Signature: "totals-changed-by-migrating-restart", What: "a byte total or block index of a channel changed over the restart that migrated the datastore", Input: label,
							Observed: fmt.Sprint(nw.Queued, nw.Sent, nw.Received, nw.QueuedBlocksTotal, nw.SentBlocksTotal, nw.ReceivedBlocksTotal),
							Expected: fmt.Sprint(o.Queued, o.Sent, o.Received, o.QueuedBlocksTotal, o.SentBlocksTotal, o.ReceivedBlocksTotal)})
					}
					fail(id, "field-not-preserved", "a field of a version-2 channel changed in migration", label, coqChan2(&asV2, nil), coqChan2(o, nil))
				}
			}
		}
		// ----- migrated channels accept further events and persist like native ones -----
		// a version-2 record may have no stage log at all (nil): the first event applied to the migrated channel
		// adds a log line to it.  Probe that here, under recover, because inside the state machine's goroutine a
		// panic would take the process down.
		stageLogUsable := func() (ok bool) {
			defer func() {
				if recover() != nil {
					ok = false
				}
			}()
			var none *datatransfer.ChannelStages
			none.AddLog("Ongoing", "probe")
			return true
		}()
		if !stageLogUsable {
			nilLog := false
			for _, st := range decoded {
				if st.Stages == nil {
					nilLog = true
				}
			}
			if nilLog {
				fail(id, "migrated-channel-without-stage-log-cannot-take-events", "a migrated channel whose version-2 record had no stage log cannot take any event: adding a log line to the absent stage log panics", label, nil, nil)
				_ = m.Stop(ctx)
				continue
			}
		}
		var evs []string
		evented := map[int]bool{}
		if ready {
			toks := make([]int, 0, len(decoded))
			for t := range decoded {
				toks = append(toks, t)
			}
			sort.Ints(toks)
			variants := allEventVariants()
			for _, t := range toks {
				st := decoded[t]
				if isTerminal(st.Status) || st.Status == datatransfer.Cancelling || st.Status == datatransfer.Failing || st.Status == datatransfer.Completing {
					continue // cleanup would need the environment; covered by the FSM suites
				}
				e := variants[r.intn(len(variants))]
				for e.Code == datatransfer.Cancel || e.Code == datatransfer.Error || e.Code == datatransfer.Complete || e.Code == datatransfer.CompleteCleanupOnRestart ||
					e.Code == datatransfer.RequestTimedOut || e.Code == datatransfer.TransferRequestQueued || e.Code == datatransfer.SendMessageError {
					e = variants[r.intn(len(variants))]
				}
				chid := datatransfer.ChannelID{Initiator: st.Initiator, Responder: st.Responder, ID: st.TransferID}
				evented[t] = true
				err := ch.VerifSend(chid, e.Code, e.args()...)
				// wait for the event to be applied
				_, _ = ch.GetByID(ctx, chid)
				evs = append(evs, fmt.Sprintf("(%s, %s, %s)", coqN(uint64(t)), e.coq(), coqBool(err == nil)))
				if err != nil {
					fail(id, "migrated-channel-refuses-event", "a migrated channel refused an event a native channel accepts: "+err.Error(), label, e.String(), nil)
				}
			}
		}
		// ----- starting again on the migrated store changes nothing -----
		// let cleanup handlers started by the events finish
		stableDeadline := time.Now().Add(3 * time.Second)
		prevSnap := ""
		for time.Now().Before(stableDeadline) {
			recs, _, _, dec := readStore()
			busy := false
			for tok, st := range dec {
				if !evented[tok] {
					continue
				}
				if st.Status == datatransfer.Cancelling || st.Status == datatransfer.Failing || st.Status == datatransfer.Completing {
					busy = true
				}
			}
			snap := strings.Join(recs, ";")
			if !busy && snap == prevSnap {
				break
			}
			prevSnap = snap
			time.Sleep(300 * time.Microsecond)
		}
		_ = m.Stop(ctx)
		before2, _, _, _ := readStore()
		rig2 := &nodeRig{res: res, selfTok: 1, self: peerOf(1), ds: ds, tids: newTidTable(), registered: map[string]bool{}}
		m2, err := impl.NewDataTransfer(ds, &netDouble{rig2}, &trDouble{rig2})
		if err != nil {
			panic(err)
		}
		ready2 := make(chan error, 1)
		m2.OnReady(func(e error) { ready2 <- e })
		_ = m2.Start(ctx)
		secondReady := false
		select {
		case e := <-ready2:
			secondReady = e == nil
		case <-time.After(10 * time.Second):
			fail(id, "second-start-not-ready", "the second start never announced readiness", label, nil, nil)
		}
		final, _, ver2, _ := readStore()
		// ----- a migrated channel honours its preserved data limit against its preserved totals, like a native
		// channel with the same history: the first new block reported after a start pauses exactly when the
		// preserved total plus the block reaches the preserved limit (direct monitor; the store is not compared after it)
		if ready && secondReady {
			ch2 := impl.VerifChannelsOf(m2)
			toks := make([]int, 0, len(decoded))
			for t := range decoded {
				toks = append(toks, t)
			}
			sort.Ints(toks)
			for _, t := range toks {
				d := decoded[t]
				chid := datatransfer.ChannelID{Initiator: d.Initiator, Responder: d.Responder, ID: d.TransferID}
				cur, err := ch2.GetByID(ctx, chid)
				if err != nil || !transferring(cur.Status()) {
					continue
				}
				recv := r.chance(50)
				total, count := cur.Queued(), cur.QueuedCidsTotal()
				if recv {
					total, count = cur.Received(), cur.ReceivedCidsTotal()
				}
				limit := cur.DataLimit()
				if count >= 1<<62 {
					continue
				}
				delta := uint64(1 + r.intn(50))
				if limit > total {
					switch r.intn(3) {
					case 0:
						delta = limit - total
					case 1:
						if limit-total > 1 {
							delta = limit - total - 1
						}
					}
				}
				if total+delta < total {
					continue // the sum leaves 64 bits
				}
				wantPause := limit != 0 && total+delta >= limit
				var rerr error
				if recv {
					rerr = ch2.DataReceived(chid, cidOf(1), delta, count+1, true)
				} else {
					rerr = ch2.DataQueued(chid, cidOf(1), delta, count+1, true)
				}
				gotPause := errors.Is(rerr, datatransfer.ErrPause)
				if rerr != nil && !gotPause {
					continue
				}
				res.hist(fmt.Sprintf("limit-probe:pause=%v", wantPause))
				if gotPause != wantPause {
					fail(id, "migrated-channel-data-limit-not-honoured", "a migrated channel does not check its preserved data limit against its preserved totals: a native channel with the same history would have answered differently", label,
						fmt.Sprintf("pause=%v (received-report=%v total=%d delta=%d limit=%d)", gotPause, recv, total, delta, limit), fmt.Sprintf("pause=%v", wantPause))
					res.fail(monitorFailure{Property: "C08", CaseID: id, Signature: "stored-channel-data-limit-not-honoured", What: "a channel loaded from the datastore does not check its data limit against its recorded total", Input: label,
						Observed: fmt.Sprintf("pause=%v (received-report=%v total=%d delta=%d limit=%d)", gotPause, recv, total, delta, limit), Expected: fmt.Sprintf("pause=%v", wantPause)})
				}
			}
		}
		_ = m2.Stop(ctx)
		if ready && (strings.Join(final, ";") != strings.Join(before2, ";") || ver2 != "3" || !secondReady) {
			fail(id, "restart-on-migrated-store-changed-it", "starting again on an already migrated store changed a record, the version, or failed", label, nil, nil)
		}
		verN := 0
		fmt.Sscanf(ver, "%d", &verN)
		var v2s, v3s []string
		for i, o := range v2 {
			v2s = append(v2s, fmt.Sprintf("(%s, %s)", coqN(uint64(i+1)), coqChan2(o, res)))
		}
		if version == 3 {
			for i, o := range v3 {
				v3s = append(v3s, fmt.Sprintf("(%s, %s)", coqN(uint64(i+1)), coqChanRaw(o, res)))
			}
		} else if conflict {
			v3s = append(v3s, fmt.Sprintf("(%s, %s)", coqN(1), coqChanRaw(v3[0], res)))
		}
		lines = append(lines, fmt.Sprintf("  mkMigCase %s %s\n   %s\n   %s\n   %s %s %s %s %s %s %s\n   %s\n   %s %s", coqN(uint64(id)), coqN(uint64(version)), coqList(v2s), coqList(v3s),
			coqBool(ready), coqList(after), coqList(left), coqN(uint64(verN)), coqBool(refusedBefore), coqBool(refusedAfter),
			coqList([]string{coqN(uint64(c0)), coqN(uint64(c1))}), coqList(evs), coqList(final), coqBool(secondReady)))
		res.hist(fmt.Sprintf("version:%d", version))
		res.hist(fmt.Sprintf("ready:%v", ready))
		res.distinct(label + fmt.Sprint(id))
	}
	res.Cases = len(lines)
	res.Rule = "datastores with 1-5 version-2 records written with the repository's ChannelStateV2 codec: statuses cycle through all 19, totals and indexes incl. 0 / 2^63 / 2^64-1 / 2^63-1, 0-3 vouchers, 0-2 results, stage logs or none, unicode and long messages, all four roles; 10% already version-3 stores, 5% empty stores, 7% with a key that already exists under /3 (migration must fail and refuse); each case: operations before Start, two ready listeners, field-by-field comparison, one event per live channel, stop + second start"
	const shard = 40
	for i := 0; i*shard < len(lines) || i == 0; i++ {
		lo, hi := i*shard, (i+1)*shard
		if hi > len(lines) {
			hi = len(lines)
		}
		body := "From Coq Require Import List NArith ZArith String Bool.\nFrom DT Require Import GenStatus GenEvent FsmTypes GenFsm Fsm Machine View GenMigrate Migrate MigrateCorr.\nImport ListNotations.\nLocal Open Scope string_scope.\n\nDefinition cases : list migcase := [\n" +
			strings.Join(lines[lo:hi], ";\n") + "\n].\n\nDefinition M := Eval vm_compute in mismatches cases.\nPrint M.\n"
		writeFile(filepath.Join(dir, fmt.Sprintf("cases_migrate_%03d.v", i)), body)
	}
	res.write(dir)
}
