package main

import (
	"bytes"
	"context"
	"fmt"
	"sync"
	"time"

	"github.com/ipfs/boxo/blockservice"
	bstore "github.com/ipfs/boxo/blockstore"
	offline "github.com/ipfs/boxo/exchange/offline"
	"github.com/ipfs/boxo/ipld/merkledag"
	"github.com/ipfs/go-datastore"
	dss "github.com/ipfs/go-datastore/sync"
	"github.com/ipfs/go-graphsync/storeutil"
	"github.com/ipld/go-ipld-prime/datamodel"
	basicnode "github.com/ipld/go-ipld-prime/node/basic"
	"github.com/ipld/go-ipld-prime/traversal/selector"
	"github.com/ipld/go-ipld-prime/traversal/selector/builder"
	mocknet "github.com/libp2p/go-libp2p/p2p/net/mock"

	datatransfer "github.com/filecoin-project/go-data-transfer/v2"
	gstransport "github.com/filecoin-project/go-data-transfer/v2/transport/graphsync"
)

// ---------- e2erestart: interrupted transfers between two real nodes (C10, C07, C01, C06) ----------
//
// A transfer over real graphsync is cut after k data events (link removed), optionally one or both
// processes are stopped and started again on their datastores, the link comes back and one side
// restarts the channel (the initiator with a restart request, or the responder by asking the
// initiator to).  Whenever the initiator then reports Completed, everything C01 promises is owed,
// with totals that count every block once although part of the DAG crossed the wire twice.

type e2eRestartScenario struct {
	Pull        bool
	Pattern     string
	Size        int
	CutAfter    int    // data events seen by the receiver before the link is cut
	KillInit    bool   // initiator process stopped and started again on its stores
	KillResp    bool   // responder process likewise
	RestartBy   string // who calls RestartDataTransferChannel: initiator | responder
	Limit       uint64
	LimitStep   uint64
	Finalize    bool
	OwnStore    bool
	SecondRound bool // cut and restart once more after further data events
	Early       bool // no cut: the responder accepts paused, the channel is restarted in-process before any data moved, then the responder resumes
}

func (s e2eRestartScenario) String() string {
	return fmt.Sprintf("pull=%v payload=%s(%dB) cut-after=%d kill-initiator=%v kill-responder=%v restart-by=%s limit=%d+%d finalize=%v own-store=%v second-round=%v early=%v",
		s.Pull, s.Pattern, s.Size, s.CutAfter, s.KillInit, s.KillResp, s.RestartBy, s.Limit, s.LimitStep, s.Finalize, s.OwnStore, s.SecondRound, s.Early)
}

func runE2ERestart(dir string, seed uint64, tier string) {
	res := newResult("e2erestart", seed, tier)
	r := newRng(seed)
	n := 36
	if tier == "thorough" {
		n = 600
	}
	allSelector := func() datamodel.Node {
		ssb := builder.NewSelectorSpecBuilder(basicnode.Prototype.Any)
		return ssb.ExploreRecursive(selector.RecursionLimitNone(), ssb.ExploreAll(ssb.ExploreRecursiveEdge())).Node()
	}()
	completed := 0
	for id := 1; id <= n; id++ {
		var data []byte
		var pat string
		for len(data) < 5*1024 { // enough blocks for the cut to fall inside the transfer
			data, pat = e2ePayload(r)
		}
		sc := e2eRestartScenario{Pull: r.chance(50), Pattern: pat, Size: len(data), CutAfter: 1 + r.intn(5), KillInit: r.chance(40), KillResp: r.chance(40),
			RestartBy: []string{"initiator", "initiator", "responder"}[r.intn(3)], Finalize: r.chance(25), OwnStore: r.chance(25), SecondRound: r.chance(20)}
		if r.chance(35) {
			sc.Limit = uint64(2000 + r.intn(6000))
			sc.LimitStep = uint64(2000 + r.intn(8000))
		}
		if id%6 == 0 {
			// restart before any data moved: paused acceptance, in-process restart, resume
			sc.Early, sc.KillInit, sc.KillResp, sc.SecondRound, sc.OwnStore = true, false, false, false, id%12 == 0 || r.chance(50)
		}
		label := sc.String()
		res.CaseLabels = append(res.CaseLabels, label)
		if onlyCase != 0 && onlyCase != id {
			continue
		}
		caseID, caseSc, caseData := id, sc, data
		okCase := false
		e2eWatchdog(res, dir, caseID, label, func() { okCase = runE2ERestartCase(res, caseID, label, caseSc, caseData, allSelector) })
		if okCase {
			completed++
		}
		res.distinct(label)
		res.hist(fmt.Sprintf("pull:%v", sc.Pull))
		res.hist(fmt.Sprintf("kill:%v/%v", sc.KillInit, sc.KillResp))
		res.hist("restart-by:" + sc.RestartBy)
	}
	res.Cases = n
	res.Extra["initiator_completed"] = completed
	res.Rule = "two real managers over real graphsync and the real libp2p data-transfer network on a mock network: push / pull x UnixFS payloads of 5-30 chunks with repeated and distinct blocks x link cut after 1-5 data events x initiator and / or responder process stopped and started again on its datastore x channel restarted by the initiator or by the responder x data limits raised in rounds x finalization x per-channel receiver store x a second cut; whenever the initiator reports Completed: responder Completed, receiver holds the byte-identical payload, Received = Queued = Sent = unique payload size, identity and opening voucher unchanged, progress never decreased"
	res.write(dir)
}

func runE2ERestartCase(res *suiteResult, id int, label string, sc e2eRestartScenario, data []byte, sel datamodel.Node) bool {
	failP := func(prop, sig, what string, obs, exp interface{}) {
		res.fail(monitorFailure{Property: prop, CaseID: id, Signature: sig, What: what, Input: label, Observed: obs, Expected: exp})
	}
	ctx, cancel := context.WithCancel(context.Background())
	defer cancel()
	mn := mocknet.New()
	defer mn.Close()
	h1, err := mn.GenPeer()
	if err != nil {
		panic(err)
	}
	h2, err := mn.GenPeer()
	if err != nil {
		panic(err)
	}
	if err := mn.LinkAll(); err != nil {
		panic(err)
	}
	if _, err := mn.ConnectPeers(h1.ID(), h2.ID()); err != nil {
		panic(err)
	}
	ini, rsp := newE2ENode(ctx, h1), newE2ENode(ctx, h2)
	defer func() { ini.kill(ctx); rsp.kill(ctx) }()
	sender, receiver := ini, rsp
	if sc.Pull {
		sender, receiver = rsp, ini
	}
	root, err := importFile(ctx, sender.dag, data)
	if err != nil {
		return false
	}
	uniq, nblocks, err := uniqueSize(ctx, sender.dag, root)
	if err != nil {
		return false
	}
	val := &e2eValidator{result: datatransfer.ValidationResult{Accepted: true, DataLimit: sc.Limit, RequiresFinalization: sc.Finalize, ForcePause: sc.Early}}
	var ownBs bstore.Blockstore
	if sc.OwnStore {
		ownBs = bstore.NewBlockstore(dss.MutexWrap(datastore.NewMapDatastore()))
	}
	limit := sc.Limit
	var appMu sync.Mutex
	var chid datatransfer.ChannelID
	received := 0        // data events at the receiver since the last cut
	cutAt := sc.CutAfter // 0 = no cut pending
	cutNow := make(chan struct{}, 4)
	var maxReceived, maxQueued uint64
	regress := ""
	// registrations every process makes when it starts (a restarted process registers again)
	register := func(node *e2eNode) {
		node.beforeStart = append(node.beforeStart, func(m datatransfer.Manager) {
			_ = m.RegisterVoucherType("T1", val)
			if sc.OwnStore && node == receiver {
				lsys := storeutil.LinkSystemForBlockstore(ownBs)
				_ = m.RegisterTransportConfigurer("T1", func(chid datatransfer.ChannelID, v datatransfer.TypedVoucher) []datatransfer.TransportOption {
					return []datatransfer.TransportOption{gstransport.UseStore(lsys)}
				})
			}
		})
		node.afterStart = append(node.afterStart, func(m datatransfer.Manager) {
			m.SubscribeToEvents(func(evt datatransfer.Event, st datatransfer.ChannelState) {
				appMu.Lock()
				// progress as the accessors show it never decreases, across cuts and process restarts (C07 / C10)
				if node == receiver {
					if st.Received() < maxReceived && regress == "" {
						regress = fmt.Sprintf("Received went from %d to %d at %s", maxReceived, st.Received(), datatransfer.Events[evt.Code])
					}
					if st.Received() > maxReceived {
						maxReceived = st.Received()
					}
				}
				if node == sender {
					if st.Queued() < maxQueued && regress == "" {
						regress = fmt.Sprintf("Queued went from %d to %d at %s", maxQueued, st.Queued(), datatransfer.Events[evt.Code])
					}
					if st.Queued() > maxQueued {
						maxQueued = st.Queued()
					}
				}
				if node == receiver && evt.Code == datatransfer.DataReceivedProgress {
					received++
					if cutAt != 0 && received == cutAt {
						cutAt = 0
						// cut the link from inside the notification, as close to the event as possible
						_ = mn.UnlinkPeers(h1.ID(), h2.ID())
						_ = mn.DisconnectPeers(h1.ID(), h2.ID())
						cutNow <- struct{}{}
					}
				}
				appMu.Unlock()
				if node != rsp {
					return
				}
				switch evt.Code {
				case datatransfer.DataLimitExceeded:
					appMu.Lock()
					limit += sc.LimitStep
					l := limit
					appMu.Unlock()
					go func() {
						time.Sleep(40 * time.Millisecond)
						_ = node.mgr.UpdateValidationStatus(ctx, st.ChannelID(), datatransfer.ValidationResult{Accepted: true, DataLimit: l, RequiresFinalization: sc.Finalize})
					}()
				case datatransfer.BeginFinalizing:
					go func() {
						time.Sleep(40 * time.Millisecond)
						_ = node.mgr.UpdateValidationStatus(ctx, st.ChannelID(), datatransfer.ValidationResult{Accepted: true, DataLimit: 0, RequiresFinalization: false})
					}()
				}
			})
		})
	}
	register(ini)
	register(rsp)
	// the first processes are already running: apply the registrations to them by hand
	for _, node := range []*e2eNode{ini, rsp} {
		for _, f := range node.beforeStart {
			f(node.mgr)
		}
		for _, f := range node.afterStart {
			f(node.mgr)
		}
	}
	opening := datatransfer.TypedVoucher{Type: "T1", Voucher: basicnode.NewString("opening voucher")}
	if sc.Pull {
		chid, err = ini.mgr.OpenPullDataChannel(ctx, h2.ID(), opening, root, sel)
	} else {
		chid, err = ini.mgr.OpenPushDataChannel(ctx, h2.ID(), opening, root, sel)
	}
	if err != nil {
		res.hist("open-failed")
		return false
	}
	statusOf := func(n *e2eNode) datatransfer.Status {
		st, err := n.mgr.ChannelState(ctx, chid)
		if err != nil {
			return datatransfer.ChannelNotFoundError
		}
		return st.Status()
	}
	terminal := func(s datatransfer.Status) bool {
		return s == datatransfer.Completed || s == datatransfer.Failed || s == datatransfer.Cancelled
	}
	rounds := 1
	if sc.SecondRound {
		rounds = 2
	}
	if sc.Early {
		rounds = 0
		appMu.Lock()
		cutAt = 0
		appMu.Unlock()
		// wait until the initiator has seen the (paused) acceptance, restart, then let the responder resume
		acc := time.Now().Add(2 * time.Second)
		for time.Now().Before(acc) {
			if st, err := ini.mgr.ChannelState(ctx, chid); err == nil && st.Status() != datatransfer.Requested && st.Status() != datatransfer.Queued {
				break
			}
			time.Sleep(2 * time.Millisecond)
		}
		time.Sleep(30 * time.Millisecond)
		restarter := ini
		if sc.RestartBy == "responder" {
			restarter = rsp
		}
		if err := restarter.mgr.RestartDataTransferChannel(ctx, chid); err != nil {
			res.hist("early-restart-call-failed:" + err.Error())
		}
		time.Sleep(80 * time.Millisecond)
		val.mu.Lock()
		val.result.ForcePause = false
		val.mu.Unlock()
		if err := rsp.mgr.ResumeDataTransferChannel(ctx, chid); err != nil {
			res.hist("early-resume-failed:" + err.Error())
		}
	}
	for round := 0; round < rounds; round++ {
		// wait for the cut (or for the transfer to end before it came to that)
		cut := false
		waitCut := time.After(3 * time.Second)
	wait:
		for {
			select {
			case <-cutNow:
				cut = true
				break wait
			case <-waitCut:
				break wait
			default:
				if terminal(statusOf(ini)) {
					break wait
				}
				time.Sleep(2 * time.Millisecond)
			}
		}
		if !cut {
			res.hist(fmt.Sprintf("round%d:no-cut", round))
			break
		}
		res.hist(fmt.Sprintf("round%d:cut", round))
		time.Sleep(time.Duration(20+10*(id%5)) * time.Millisecond)
		if terminal(statusOf(ini)) {
			break
		}
		// progress before the restart, as each side has it on record
		var recBefore, queuedBefore uint64
		if st, err := receiver.mgr.ChannelState(ctx, chid); err == nil {
			recBefore = st.Received()
		}
		if st, err := sender.mgr.ChannelState(ctx, chid); err == nil {
			queuedBefore = st.Queued()
		}
		if sc.KillInit {
			ini.kill(ctx)
		}
		if sc.KillResp {
			rsp.kill(ctx)
		}
		time.Sleep(30 * time.Millisecond)
		_ = mn.LinkAll()
		_, _ = mn.ConnectPeers(h1.ID(), h2.ID())
		if sc.KillInit {
			ini.boot(ctx)
		}
		if sc.KillResp {
			rsp.boot(ctx)
		}
		// what the reopened stores say (C06 / C10): the channel is there, same identity, no progress lost
		for _, node := range []*e2eNode{ini, rsp} {
			st, err := node.mgr.ChannelState(ctx, chid)
			if err != nil {
				failP("C06", "channel-lost-across-process-restart", "a channel that existed before the process stopped is not there after it started again: "+err.Error(), nil, nil)
				return false
			}
			if !st.BaseCID().Equals(root) || st.ChannelID() != chid || st.IsPull() != sc.Pull {
				failP("C10", "identity-changed-across-restart", "base CID, channel id or direction differ after the process restart", nil, nil)
			}
			if v := st.Voucher(); v.Type != "T1" || !datamodel.DeepEqual(v.Voucher, opening.Voucher) {
				failP("C10", "opening-voucher-changed-across-restart", "the opening voucher differs after the process restart", nil, nil)
			}
		}
		if st, err := receiver.mgr.ChannelState(ctx, chid); err == nil && st.Received() < recBefore {
			failP("C10", "progress-lost-across-restart", "the receiver's recorded progress decreased across the process restart", st.Received(), recBefore)
		}
		if st, err := sender.mgr.ChannelState(ctx, chid); err == nil && st.Queued() < queuedBefore {
			failP("C10", "progress-lost-across-restart", "the sender's recorded progress decreased across the process restart", st.Queued(), queuedBefore)
		}
		appMu.Lock()
		received = 0
		if round+1 < rounds {
			cutAt = 1 + id%3
		}
		appMu.Unlock()
		restarter := ini
		if sc.RestartBy == "responder" {
			restarter = rsp
		}
		if err := restarter.mgr.RestartDataTransferChannel(ctx, chid); err != nil {
			res.hist("restart-call-failed:" + err.Error())
		}
	}
	deadline := time.Now().Add(8 * time.Second)
	for time.Now().Before(deadline) && !terminal(statusOf(ini)) {
		time.Sleep(2 * time.Millisecond)
	}
	final := statusOf(ini)
	res.hist("initiator-final:" + statusName(final))
	appMu.Lock()
	rg := regress
	appMu.Unlock()
	if rg != "" {
		failP("C07", "progress-decreased", "a progress total shown by the accessors decreased: "+rg, nil, nil)
	}
	if final != datatransfer.Completed {
		msg, rmsg := "", ""
		if st, err := ini.mgr.ChannelState(ctx, chid); err == nil {
			msg = st.Message()
		}
		if st, err := rsp.mgr.ChannelState(ctx, chid); err == nil {
			rmsg = statusName(st.Status()) + ":" + st.Message()
		}
		res.hist("not-completed:" + statusName(final) + " [" + msg + "] responder=" + rmsg + " :: " + label)
		return false
	}
	// ---- the initiator reports Completed ----
	rdeadline := time.Now().Add(5 * time.Second)
	for time.Now().Before(rdeadline) && statusOf(rsp) != datatransfer.Completed {
		time.Sleep(2 * time.Millisecond)
	}
	if s := statusOf(rsp); s != datatransfer.Completed {
		failP("C01", "responder-not-completed", "the initiator reports Completed but the responder's channel did not settle in Completed", statusName(s), "Completed")
	}
	rdag := receiver.dag
	if sc.OwnStore {
		rdag = merkledag.NewDAGService(blockservice.New(ownBs, offline.Exchange(ownBs)))
	}
	got, err := readFile(ctx, rdag, root)
	if err != nil && sc.OwnStore {
		if _, derr := readFile(ctx, receiver.dag, root); derr == nil {
			failP("C16", "per-channel-store-not-used-after-restart", "the channel was configured with its own store, yet after the restart its blocks went to the node's default store", nil, nil)
		}
	}
	if err != nil {
		failP("C01", "receiver-missing-blocks", "the initiator reports Completed after a restart but the receiver's store does not hold the whole DAG: "+err.Error(), nil, nil)
	} else if !bytes.Equal(got, data) {
		failP("C01", "receiver-payload-differs", "the payload read back from the receiver differs from what was sent", len(got), len(data))
	}
	if ru, rn, err := uniqueSize(ctx, rdag, root); err != nil || ru != uniq || rn != nblocks {
		failP("C01", "receiver-missing-blocks", "the receiver's store does not hold every block of the DAG", fmt.Sprintf("%d bytes in %d blocks (%v)", ru, rn, err), fmt.Sprintf("%d bytes in %d blocks", uniq, nblocks))
	}
	sst, _ := sender.mgr.ChannelState(ctx, chid)
	rst, _ := receiver.mgr.ChannelState(ctx, chid)
	if sst != nil && rst != nil {
		if rst.Received() != uniq || sst.Queued() != uniq || sst.Sent() != uniq {
			obs := fmt.Sprintf("received=%d queued=%d sent=%d", rst.Received(), sst.Queued(), sst.Sent())
			failP("C07", "totals-differ-after-restart", "after an interrupted and restarted transfer Received / Queued / Sent are not all the unique payload size", obs, uniq)
			failP("C01", "totals-differ-after-restart", "after an interrupted and restarted transfer Received / Queued / Sent are not all the unique payload size", obs, uniq)
		}
	}
	return true
}
