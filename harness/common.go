package main

import (
	"context"
	"encoding/json"
	"fmt"
	"github.com/ipld/go-ipld-prime/fluent/qp"
	"os"
	"path/filepath"
	"sort"
	"strings"
	"sync"

	"github.com/ipfs/go-cid"
	"github.com/ipfs/go-datastore"
	"github.com/ipfs/go-datastore/query"
	dss "github.com/ipfs/go-datastore/sync"
	"github.com/ipld/go-ipld-prime/datamodel"
	basicnode "github.com/ipld/go-ipld-prime/node/basic"
	"github.com/libp2p/go-libp2p/core/peer"
	mh "github.com/multiformats/go-multihash"

	datatransfer "github.com/filecoin-project/go-data-transfer/v2"
)

// ---------- deterministic PRNG (splitmix64) ----------

type rng struct{ s uint64 }

func newRng(seed uint64) *rng {
	// scramble the seed so that streams of neighbouring seeds are unrelated
	z := seed + 0x632BE59BD9B4E019
	z = (z ^ (z >> 30)) * 0xBF58476D1CE4E5B9
	z = (z ^ (z >> 27)) * 0x94D049BB133111EB
	return &rng{s: z ^ (z >> 31)}
}
func (r *rng) next() uint64 {
	r.s += 0x9E3779B97F4A7C15
	z := r.s
	z = (z ^ (z >> 30)) * 0xBF58476D1CE4E5B9
	z = (z ^ (z >> 27)) * 0x94D049BB133111EB
	return z ^ (z >> 31)
}
func (r *rng) intn(n int) int {
	if n <= 0 {
		return 0
	}
	return int(r.next() % uint64(n))
}
func (r *rng) chance(pct int) bool { return r.intn(100) < pct }

// ---------- tokens: fixed peers, cids, nodes ----------

// peers are tokens 1..8 ; real value is a deterministic identity-multihash peer id
var peerTok = map[peer.ID]int{}
var peers []peer.ID

func init() {
	for i := 1; i <= 8; i++ {
		h, _ := mh.Sum([]byte(fmt.Sprintf("verif-peer-%d", i)), mh.IDENTITY, -1)
		p := peer.ID(h)
		peers = append(peers, p)
		peerTok[p] = i
	}
}
func peerOf(tok int) peer.ID { return peers[tok-1] }
func tokOfPeer(p peer.ID) int {
	if t, ok := peerTok[p]; ok {
		return t
	}
	if p == "" {
		return 0
	}
	return 99
}

var cidCache = map[int]cid.Cid{}
var cidTok = map[string]int{}

func cidOf(tok int) cid.Cid {
	if c, ok := cidCache[tok]; ok {
		return c
	}
	h, _ := mh.Sum([]byte(fmt.Sprintf("verif-cid-%d", tok)), mh.SHA2_256, -1)
	c := cid.NewCidV1(cid.Raw, h)
	cidCache[tok] = c
	cidTok[c.KeyString()] = tok
	return c
}
func tokOfCid(c cid.Cid) int {
	if !c.Defined() {
		return 0
	}
	if t, ok := cidTok[c.KeyString()]; ok {
		return t
	}
	return 99
}

// IPLD nodes used as selector / voucher payloads: Int(k) <-> token k+1 ; nil/null <-> 0
// vouchers, results and selectors are tokens in the model; the value behind a token cycles through
// three shapes so that every path that stores or ships one sees floats (incl. 0.0), maps and lists
func nodeOf(tok int) datamodel.Node {
	if tok == 0 {
		return nil
	}
	switch tok % 3 {
	case 0:
		n, _ := qp.BuildMap(basicnode.Prototype.Any, 2, func(ma datamodel.MapAssembler) {
			qp.MapEntry(ma, "tok", qp.Int(int64(tok-1)))
			qp.MapEntry(ma, "price", qp.Float(0.0))
		})
		return n
	case 2:
		n, _ := qp.BuildList(basicnode.Prototype.Any, 2, func(la datamodel.ListAssembler) {
			qp.ListEntry(la, qp.Int(int64(tok-1)))
			qp.ListEntry(la, qp.Float(1.5))
		})
		return n
	}
	return basicnode.NewInt(int64(tok - 1))
}
func tokOfNode(n datamodel.Node) int {
	if n == nil || n.IsNull() {
		return 0
	}
	switch n.Kind() {
	case datamodel.Kind_Int:
		v, _ := n.AsInt()
		return int(v) + 1
	case datamodel.Kind_Map:
		if t, err := n.LookupByString("tok"); err == nil {
			v, _ := t.AsInt()
			return int(v) + 1
		}
	case datamodel.Kind_List:
		if t, err := n.LookupByIndex(0); err == nil {
			v, _ := t.AsInt()
			return int(v) + 1
		}
	}
	return 999
}

// ---------- recording datastore ----------

type dsOp struct {
	Put bool
	Key string
	Val []byte
}

type recDS struct {
	inner datastore.Batching
	mu    sync.Mutex
	log   []dsOp
}

func newRecDS() *recDS {
	return &recDS{inner: dss.MutexWrap(datastore.NewMapDatastore())}
}
func (d *recDS) Get(ctx context.Context, key datastore.Key) ([]byte, error) {
	return d.inner.Get(ctx, key)
}
func (d *recDS) Has(ctx context.Context, key datastore.Key) (bool, error) {
	return d.inner.Has(ctx, key)
}
func (d *recDS) GetSize(ctx context.Context, key datastore.Key) (int, error) {
	return d.inner.GetSize(ctx, key)
}
func (d *recDS) Query(ctx context.Context, q query.Query) (query.Results, error) {
	return d.inner.Query(ctx, q)
}
func (d *recDS) Put(ctx context.Context, key datastore.Key, value []byte) error {
	d.mu.Lock()
	d.log = append(d.log, dsOp{true, key.String(), append([]byte(nil), value...)})
	d.mu.Unlock()
	return d.inner.Put(ctx, key, value)
}
func (d *recDS) Delete(ctx context.Context, key datastore.Key) error {
	d.mu.Lock()
	d.log = append(d.log, dsOp{false, key.String(), nil})
	d.mu.Unlock()
	return d.inner.Delete(ctx, key)
}
func (d *recDS) Sync(ctx context.Context, prefix datastore.Key) error {
	return d.inner.Sync(ctx, prefix)
}
func (d *recDS) Close() error { return nil }
func (d *recDS) Batch(ctx context.Context) (datastore.Batch, error) {
	return &recBatch{d: d}, nil
}
func (d *recDS) ops() []dsOp {
	d.mu.Lock()
	defer d.mu.Unlock()
	return append([]dsOp(nil), d.log...)
}
func (d *recDS) nops() int {
	d.mu.Lock()
	defer d.mu.Unlock()
	return len(d.log)
}

type recBatch struct {
	d   *recDS
	ops []dsOp
}

func (b *recBatch) Put(ctx context.Context, key datastore.Key, value []byte) error {
	b.ops = append(b.ops, dsOp{true, key.String(), append([]byte(nil), value...)})
	return nil
}
func (b *recBatch) Delete(ctx context.Context, key datastore.Key) error {
	b.ops = append(b.ops, dsOp{false, key.String(), nil})
	return nil
}
func (b *recBatch) Commit(ctx context.Context) error {
	for _, o := range b.ops {
		var err error
		if o.Put {
			err = b.d.Put(ctx, datastore.NewKey(o.Key), o.Val)
		} else {
			err = b.d.Delete(ctx, datastore.NewKey(o.Key))
		}
		if err != nil {
			return err
		}
	}
	return nil
}

// ---------- Coq term printers ----------

func coqStr(s string) string {
	var b strings.Builder
	b.WriteByte('"')
	for _, r := range []byte(s) {
		switch {
		case r == '"':
			b.WriteString("\"\"")
		case r < 32 || r > 126:
			b.WriteByte('?')
		default:
			b.WriteByte(r)
		}
	}
	b.WriteByte('"')
	return b.String()
}
func coqBool(b bool) string {
	if b {
		return "true"
	}
	return "false"
}
func coqN(n uint64) string { return fmt.Sprintf("%d%%N", n) }
func coqZ(z int64) string {
	if z < 0 {
		return fmt.Sprintf("(%d)%%Z", z)
	}
	return fmt.Sprintf("%d%%Z", z)
}
func coqList(items []string) string { return "[" + strings.Join(items, "; ") + "]" }

func statusName(s datatransfer.Status) string {
	if n, ok := datatransfer.Statuses[s]; ok {
		return n
	}
	return fmt.Sprintf("UnknownStatus%d", uint64(s))
}
func eventName(e datatransfer.EventCode) string {
	if n, ok := datatransfer.Events[e]; ok {
		return n
	}
	return fmt.Sprintf("UnknownEvent%d", int(e))
}

// ---------- result files ----------

type monitorFailure struct {
	Property  string      `json:"property"`
	CaseID    int         `json:"case_id,omitempty"`
	Signature string      `json:"signature"`
	What      string      `json:"what"`
	Input     interface{} `json:"input"`
	Observed  interface{} `json:"observed,omitempty"`
	Expected  interface{} `json:"expected,omitempty"`
}

type suiteResult struct {
	Suite       string                 `json:"suite"`
	Seed        uint64                 `json:"seed"`
	Tier        string                 `json:"tier"`
	Cases       int                    `json:"cases"`
	Distinct    int                    `json:"distinct_nontrivial"`
	Rule        string                 `json:"rule"`
	Exhaustive  bool                   `json:"exhaustive"`
	Histogram   map[string]int         `json:"histogram"`
	Samples     []interface{}          `json:"samples"`
	Failures    []monitorFailure       `json:"failures"`
	CaseLabels  []string               `json:"case_labels,omitempty"`
	Extra       map[string]interface{} `json:"extra,omitempty"`
	histMu      sync.Mutex
	distinctSet map[string]bool
	failCount   map[string]int
}

func newResult(suite string, seed uint64, tier string) *suiteResult {
	return &suiteResult{Suite: suite, Seed: seed, Tier: tier, Histogram: map[string]int{}, distinctSet: map[string]bool{}, Extra: map[string]interface{}{}}
}
func (r *suiteResult) hist(k string) {
	r.histMu.Lock()
	r.Histogram[k]++
	r.histMu.Unlock()
}
func (r *suiteResult) distinct(k string) {
	r.histMu.Lock()
	r.distinctSet[k] = true
	r.histMu.Unlock()
}
func (r *suiteResult) fail(f monitorFailure) {
	r.histMu.Lock()
	if r.failCount == nil {
		r.failCount = map[string]int{}
	}
	// keep at most 8 failures per (property, signature) and 60 per property
	r.failCount[f.Property+"|"+f.Signature]++
	r.failCount[f.Property]++
	if r.failCount[f.Property+"|"+f.Signature] <= 8 && r.failCount[f.Property] <= 60 {
		r.Failures = append(r.Failures, f)
	}
	r.histMu.Unlock()
}
func (r *suiteResult) sample(s interface{}) {
	r.histMu.Lock()
	if len(r.Samples) < 5 {
		r.Samples = append(r.Samples, s)
	}
	r.histMu.Unlock()
}
func (r *suiteResult) write(dir string) {
	r.Distinct = len(r.distinctSet)
	b, _ := json.MarshalIndent(r, "", " ")
	if err := os.WriteFile(filepath.Join(dir, "result_"+r.Suite+".json"), b, 0o644); err != nil {
		panic(err)
	}
}

func sortedKeys(m map[string]int) []string {
	var ks []string
	for k := range m {
		ks = append(ks, k)
	}
	sort.Strings(ks)
	return ks
}

func writeFile(path, content string) {
	if err := os.WriteFile(path, []byte(content), 0o644); err != nil {
		panic(err)
	}
}
