package main

import (
	"bytes"
	"context"
	"errors"
	"fmt"
	"path/filepath"
	"strings"
	"sync"
	"time"

	"github.com/ipfs/go-datastore"
	"github.com/libp2p/go-libp2p/core/peer"

	datatransfer "github.com/filecoin-project/go-data-transfer/v2"
	"github.com/filecoin-project/go-data-transfer/v2/channels"
)

// ---------- recording, gateable channel environment ----------

type envCall struct {
	Kind string // "cleanup" | "unprotect" | "protect"
	Peer peer.ID
	Chid datatransfer.ChannelID
	Tag  string
}

type fsmEnv struct {
	self    peer.ID
	mu      sync.Mutex
	calls   []envCall
	busy    int
	gate    chan struct{} // when non-nil, CleanupChannel blocks on it
	entered chan datatransfer.ChannelID
}

func (e *fsmEnv) Protect(id peer.ID, tag string) {
	e.mu.Lock()
	e.calls = append(e.calls, envCall{Kind: "protect", Peer: id, Tag: tag})
	e.mu.Unlock()
}
func (e *fsmEnv) Unprotect(id peer.ID, tag string) bool {
	e.mu.Lock()
	e.calls = append(e.calls, envCall{Kind: "unprotect", Peer: id, Tag: tag})
	e.mu.Unlock()
	return false
}
func (e *fsmEnv) ID() peer.ID { return e.self }
func (e *fsmEnv) CleanupChannel(chid datatransfer.ChannelID) {
	e.mu.Lock()
	e.calls = append(e.calls, envCall{Kind: "cleanup", Chid: chid})
	e.busy++
	g := e.gate
	ent := e.entered
	e.mu.Unlock()
	if ent != nil {
		select {
		case ent <- chid:
		default:
		}
	}
	if g != nil {
		<-g
	}
	e.mu.Lock()
	e.busy--
	e.mu.Unlock()
}
func (e *fsmEnv) snapshot() []envCall {
	e.mu.Lock()
	defer e.mu.Unlock()
	return append([]envCall(nil), e.calls...)
}
func (e *fsmEnv) isBusy() bool {
	e.mu.Lock()
	defer e.mu.Unlock()
	return e.busy > 0
}

// ---------- rig around a real channels.Channels ----------

type notif struct {
	Chid datatransfer.ChannelID
	Code datatransfer.EventCode
	View string // coq view term
	St   datatransfer.ChannelState
}

type fsmRig struct {
	ds       *recDS
	env      *fsmEnv
	ch       *channels.Channels
	self     peer.ID
	mu       sync.Mutex
	notifs   []notif
	sentinel datatransfer.ChannelID
	sentSeen int
	keyOf    map[datatransfer.ChannelID]datastore.Key
	res      *suiteResult
}

func newFsmRig(res *suiteResult, selfTok int, ds *recDS) *fsmRig {
	if ds == nil {
		ds = newRecDS()
	}
	curTids, canonText = nil, false
	r := &fsmRig{ds: ds, self: peerOf(selfTok), keyOf: map[datatransfer.ChannelID]datastore.Key{}, res: res}
	r.env = &fsmEnv{self: r.self}
	ch, err := channels.New(ds, r.notify, r.env, r.self)
	if err != nil {
		panic(err)
	}
	r.ch = ch
	if err := ch.Start(context.Background()); err != nil {
		panic(err)
	}
	// sentinel channel used to flush the notifier FIFO
	r.sentinel = datatransfer.ChannelID{Initiator: peerOf(7), Responder: peerOf(8), ID: 0xFFFFFFFF}
	has, _ := ch.HasChannel(r.sentinel)
	if !has {
		_, err = ch.CreateNew(r.self, r.sentinel.ID, cidOf(1), nodeOf(1), datatransfer.TypedVoucher{Type: "S", Voucher: nodeOf(1)}, peerOf(7), peerOf(7), peerOf(8))
		if err != nil {
			panic(err)
		}
	}
	return r
}

func (r *fsmRig) notify(evt datatransfer.Event, st datatransfer.ChannelState) {
	r.mu.Lock()
	defer r.mu.Unlock()
	if st.ChannelID() == r.sentinel {
		r.sentSeen++
		return
	}
	r.notifs = append(r.notifs, notif{Chid: st.ChannelID(), Code: evt.Code, View: coqView(st, r.res), St: st})
}

// flush waits until every notification queued so far has been delivered
func (r *fsmRig) flush() {
	r.mu.Lock()
	before := r.sentSeen
	r.mu.Unlock()
	if err := r.ch.ChannelOpened(r.sentinel); err != nil {
		panic(err)
	}
	deadline := time.Now().Add(10 * time.Second)
	for {
		r.mu.Lock()
		seen := r.sentSeen
		r.mu.Unlock()
		if seen > before {
			return
		}
		if time.Now().After(deadline) {
			panic("notifier flush timed out")
		}
		time.Sleep(50 * time.Microsecond)
	}
}

func (r *fsmRig) rawState(chid datatransfer.ChannelID) (*channels.VerifChannelState, []byte) {
	k, ok := r.keyOf[chid]
	if !ok {
		return nil, nil
	}
	b, err := r.ds.Get(context.Background(), k)
	if err != nil {
		return nil, nil
	}
	var st channels.VerifChannelState
	if err := st.UnmarshalCBOR(bytes.NewReader(b)); err != nil {
		panic(err)
	}
	return &st, b
}

// quiesce waits until the channel's machine has nothing left to do
func (r *fsmRig) quiesce(chid datatransfer.ChannelID) {
	ctx, cancel := context.WithTimeout(context.Background(), 20*time.Second)
	defer cancel()
	var prev []byte
	stable := 0
	for i := 0; ; i++ {
		if _, err := r.ch.GetByID(ctx, chid); err != nil {
			if ctx.Err() != nil {
				panic("quiesce timed out (GetByID) for " + chid.String())
			}
		}
		_, b := r.rawState(chid)
		if !r.env.isBusy() && prev != nil && bytes.Equal(prev, b) {
			stable++
			if stable >= 2 {
				break
			}
		} else {
			stable = 0
		}
		prev = b
		if ctx.Err() != nil {
			panic("quiesce timed out for " + chid.String())
		}
	}
	r.flush()
}

// create makes a channel through the real API and remembers its datastore key
func (r *fsmRig) create(tid uint64, initTok, senderTok, recipTok int, baseTok, selTok int, v datatransfer.TypedVoucher) datatransfer.ChannelID {
	n0 := r.ds.nops()
	chid, err := r.ch.CreateNew(r.self, datatransfer.TransferID(tid), cidOf(baseTok), nodeOf(selTok), v, peerOf(initTok), peerOf(senderTok), peerOf(recipTok))
	if err != nil {
		panic(err)
	}
	ops := r.ds.ops()
	found := false
	for _, o := range ops[n0:] {
		if o.Put && strings.HasSuffix(o.Key, "/"+chid.String()) {
			r.keyOf[chid] = datastore.NewKey(o.Key)
			found = true
		}
	}
	if !found {
		panic("CreateNew: no Put for the new channel's key")
	}
	return chid
}

// seed overwrites the durable record of a channel
func (r *fsmRig) seed(chid datatransfer.ChannelID, st *channels.VerifChannelState) {
	var buf bytes.Buffer
	if err := st.MarshalCBOR(&buf); err != nil {
		panic(err)
	}
	if err := r.ds.inner.Put(context.Background(), r.keyOf[chid], buf.Bytes()); err != nil {
		panic(err)
	}
}

func (r *fsmRig) takeNotifs(chid datatransfer.ChannelID) []notif {
	r.mu.Lock()
	defer r.mu.Unlock()
	var out, rest []notif
	for _, n := range r.notifs {
		if n.Chid == chid {
			out = append(out, n)
		} else {
			rest = append(rest, n)
		}
	}
	r.notifs = rest
	return out
}

// ---------- Coq printers for records and views ----------

func coqVoucher(typ datatransfer.TypeIdentifier, tok int) string {
	return fmt.Sprintf("{| v_type := %s; v_node := %s |}", coqStr(string(typ)), coqN(uint64(tok)))
}

func coqStages(st *datatransfer.ChannelStages, res *suiteResult) string {
	var items []string
	if st != nil {
		for _, s := range st.Stages {
			ok := false
			for _, n := range datatransfer.Statuses {
				if n == s.Name {
					ok = true
				}
			}
			name := s.Name
			if !ok {
				if res != nil {
					res.fail(monitorFailure{Property: "C06", Signature: "stage-name-not-a-status", What: "stage name is not a status name: " + s.Name})
				}
				name = "ChannelNotFoundError"
			}
			var logs []string
			prevLine := ""
			for _, l := range s.Logs {
				line := canonLog(l.Log)
				if canonText && line == prevLine {
					continue // distinct error texts collapse to the same canonical line
				}
				prevLine = line
				logs = append(logs, coqStr(line))
			}
			items = append(items, fmt.Sprintf("{| st_name := %s; st_logs := %s |}", name, coqList(logs)))
		}
	}
	return coqList(items)
}

// curTids, when set, maps real transfer ids to tokens (node suites); canonText maps every
// non-empty message to "E" and every formatted log line to its prefix + "E"
var curTids *tidTable
var canonText bool

var logPrefixes = []string{"data transfer disconnected: ", "data transfer send error: ", "data transfer receive error: ",
	"data transfer request cancelled: ", "data transfer erred: "}

func canonMsg(m string) string {
	if canonText && m != "" {
		return "E"
	}
	return m
}
func canonLog(l string) string {
	if canonText {
		for _, p := range logPrefixes {
			if strings.HasPrefix(l, p) {
				return p + "E"
			}
		}
	}
	return l
}

func coqChid(c datatransfer.ChannelID) string {
	id := uint64(c.ID)
	if curTids != nil {
		id = curTids.tok(id)
	}
	return fmt.Sprintf("(%s, %s, %s)", coqN(uint64(tokOfPeer(c.Initiator))), coqN(uint64(tokOfPeer(c.Responder))), coqN(id))
}

func coqChanRaw(st *channels.VerifChannelState, res *suiteResult) string {
	var vs, rs []string
	for _, v := range st.Vouchers {
		vs = append(vs, coqVoucher(v.Type, tokOfNode(v.Voucher.Node)))
	}
	for _, v := range st.VoucherResults {
		rs = append(rs, coqVoucher(v.Type, tokOfNode(v.VoucherResult.Node)))
	}
	stages := "None"
	if st.Stages != nil {
		stages = "Some " + coqStages(st.Stages, res)
	}
	return fmt.Sprintf("(mkChan %s %s %s %s %s %s %s %s %s %s %s %s %s %s %s %s %s %s %s %s %s %s %s (%s))",
		coqN(uint64(tokOfPeer(st.SelfPeer))), coqN(uint64(st.TransferID)), coqN(uint64(tokOfPeer(st.Initiator))),
		coqN(uint64(tokOfPeer(st.Responder))), coqN(uint64(tokOfCid(st.BaseCid))), coqN(uint64(tokOfNode(st.Selector.Node))),
		coqN(uint64(tokOfPeer(st.Sender))), coqN(uint64(tokOfPeer(st.Recipient))), coqN(st.TotalSize),
		statusName(st.Status), coqN(st.Queued), coqN(st.Sent), coqN(st.Received), coqStr(st.Message),
		coqList(vs), coqList(rs), coqZ(st.ReceivedBlocksTotal), coqZ(st.QueuedBlocksTotal), coqZ(st.SentBlocksTotal),
		coqN(st.DataLimit), coqBool(st.RequiresFinalization), coqBool(st.ResponderPaused), coqBool(st.InitiatorPaused), stages)
}

func coqTyped(v datatransfer.TypedVoucher) string { return coqVoucher(v.Type, tokOfNode(v.Voucher)) }

// coqView prints the accessor view; every accessor runs under recover (C19 totality monitor)
func coqView(cs datatransfer.ChannelState, res *suiteResult) (out string) {
	defer func() {
		if p := recover(); p != nil {
			if res != nil {
				res.fail(monitorFailure{Property: "C19", Signature: "accessor-panic", What: fmt.Sprintf("accessor panicked: %v", p)})
			}
			out = "ACCESSOR_PANIC"
		}
	}()
	var vs, rs []string
	for _, v := range cs.Vouchers() {
		vs = append(vs, coqTyped(v))
	}
	for _, v := range cs.VoucherResults() {
		rs = append(rs, coqTyped(v))
	}
	// the `last` accessors must be total and consistent (C19)
	lv := safeLast(cs.LastVoucher, res, "LastVoucher")
	lr := safeLast(cs.LastVoucherResult, res, "LastVoucherResult")
	if res != nil {
		all := cs.Vouchers()
		if len(all) > 0 && lv != nil && !lv.Equals(all[len(all)-1]) {
			res.fail(monitorFailure{Property: "C19", Signature: "last-voucher-not-final", What: "LastVoucher differs from the final log entry"})
		}
		allr := cs.VoucherResults()
		if len(allr) > 0 && lr != nil && !lr.Equals(allr[len(allr)-1]) {
			res.fail(monitorFailure{Property: "C19", Signature: "last-result-not-final", What: "LastVoucherResult differs from the final log entry"})
		}
		if len(allr) == 0 && lr != nil && (lr.Type != "" || lr.Voucher != nil) {
			res.fail(monitorFailure{Property: "C19", Signature: "last-result-not-empty", What: "LastVoucherResult on an empty log is not the empty value"})
		}
	}
	if res != nil && cs.Sender() != cs.Recipient() {
		chid := cs.ChannelID()
		if cs.IsPull() != (chid.Initiator == cs.Recipient()) {
			res.fail(monitorFailure{Property: "C19", Signature: "view:pull-vs-initiator", What: "IsPull disagrees with initiator == recipient"})
		}
		if chid.ID != cs.TransferID() || (chid.Responder != cs.Sender() && chid.Responder != cs.Recipient()) || chid.Initiator == chid.Responder {
			res.fail(monitorFailure{Property: "C19", Signature: "view:channel-id", What: "ChannelID is not (initiator, responder, transfer id) of the two parties"})
		}
		if cs.SelfPeer() == chid.Initiator || cs.SelfPeer() == chid.Responder {
			if cs.OtherPeer() == cs.SelfPeer() || (cs.OtherPeer() != cs.Sender() && cs.OtherPeer() != cs.Recipient()) {
				res.fail(monitorFailure{Property: "C19", Signature: "view:other-peer", What: "OtherPeer is not the party that is not self"})
			}
		}
		if cs.BothPaused() != (cs.InitiatorPaused() && cs.ResponderPaused()) {
			res.fail(monitorFailure{Property: "C11", Signature: "view:both-paused", What: "BothPaused is not the conjunction"})
			res.fail(monitorFailure{Property: "C19", Signature: "view:both-paused", What: "the views of one channel state contradict each other: BothPaused is not the conjunction"})
			res.fail(monitorFailure{Property: "C17", Signature: "view:both-paused", What: "an announced snapshot is not a consistent view of the state resulting from the event: BothPaused is not the conjunction"})
		}
		selfP := cs.ResponderPaused()
		if cs.SelfPeer() == chid.Initiator {
			selfP = cs.InitiatorPaused()
		}
		if cs.SelfPaused() != selfP {
			res.fail(monitorFailure{Property: "C11", Signature: "view:self-paused", What: "SelfPaused is not the flag of the local role"})
			res.fail(monitorFailure{Property: "C19", Signature: "view:self-paused", What: "the views of one channel state contradict each other: SelfPaused is not the flag of the local role"})
			res.fail(monitorFailure{Property: "C17", Signature: "view:self-paused", What: "an announced snapshot is not a consistent view of the state resulting from the event: SelfPaused is not the flag of the local role"})
		}
		if cs.Status() == datatransfer.Finalizing && !cs.ResponderPaused() {
			res.fail(monitorFailure{Property: "C03", Signature: "view:finalizing-not-paused", What: "a responder awaiting finalization does not report itself paused"})
			res.fail(monitorFailure{Property: "C11", Signature: "view:finalizing-not-paused", What: "a responder awaiting finalization does not count as paused"})
			res.fail(monitorFailure{Property: "C19", Signature: "view:finalizing-not-paused", What: "the views of one channel state contradict each other: a responder awaiting finalization does not count as paused"})
			res.fail(monitorFailure{Property: "C17", Signature: "view:finalizing-not-paused", What: "an announced snapshot is not a consistent view of the state resulting from the event: a responder awaiting finalization does not count as paused"})
		}
		vs0 := cs.Vouchers()
		if len(vs0) > 0 && !cs.Voucher().Equals(vs0[0]) {
			res.fail(monitorFailure{Property: "C19", Signature: "view:first-voucher", What: "Voucher() is not the first entry of the voucher log"})
		}
	}
	return fmt.Sprintf("(mkView %s %s %s %s %s %s %s %s %s %s %s %s %s %s %s %s %s %s %s %s %s %s %s %s %s %s %s)",
		coqChid(cs.ChannelID()), coqN(uint64(tokOfPeer(cs.SelfPeer()))), coqN(uint64(tokOfPeer(cs.OtherPeer()))),
		coqN(uint64(tokOfPeer(cs.Sender()))), coqN(uint64(tokOfPeer(cs.Recipient()))), coqBool(cs.IsPull()),
		coqN(uint64(tokOfCid(cs.BaseCID()))), coqN(uint64(tokOfNode(cs.Selector()))), coqN(cs.TotalSize()),
		statusName(cs.Status()), coqN(cs.Queued()), coqN(cs.Sent()), coqN(cs.Received()),
		coqZ(cs.QueuedCidsTotal()), coqZ(cs.SentCidsTotal()), coqZ(cs.ReceivedCidsTotal()),
		coqStr(canonMsg(cs.Message())), coqTyped(cs.Voucher()), coqList(vs), coqList(rs),
		coqN(cs.DataLimit()), coqBool(cs.RequiresFinalization()),
		coqBool(cs.InitiatorPaused()), coqBool(cs.ResponderPaused()), coqBool(cs.BothPaused()), coqBool(cs.SelfPaused()),
		coqStages(cs.Stages(), res))
}

func safeLast(f func() datatransfer.TypedVoucher, res *suiteResult, name string) (out *datatransfer.TypedVoucher) {
	defer func() {
		if p := recover(); p != nil {
			if res != nil {
				res.fail(monitorFailure{Property: "C19", Signature: "accessor-panic:" + name + ":empty-log", What: fmt.Sprintf("%s panicked: %v", name, p)})
			}
			out = nil
		}
	}()
	v := f()
	return &v
}

// ---------- events ----------

type fsmEv struct {
	Code datatransfer.EventCode
	Int  int64
	Uint uint64
	Err  string
	Bool bool
	VTyp string
	VTok int
}

func (e fsmEv) args() []interface{} {
	switch e.Code {
	case datatransfer.DataReceived, datatransfer.DataSent, datatransfer.DataQueued:
		return []interface{}{e.Int}
	case datatransfer.DataReceivedProgress, datatransfer.DataSentProgress, datatransfer.DataQueuedProgress, datatransfer.SetDataLimit:
		return []interface{}{e.Uint}
	case datatransfer.Disconnected, datatransfer.SendDataError, datatransfer.ReceiveDataError, datatransfer.RequestCancelled, datatransfer.Error:
		return []interface{}{errors.New(e.Err)}
	case datatransfer.SetRequiresFinalization:
		return []interface{}{e.Bool}
	case datatransfer.NewVoucher, datatransfer.NewVoucherResult:
		return []interface{}{datatransfer.TypedVoucher{Type: datatransfer.TypeIdentifier(e.VTyp), Voucher: nodeOf(e.VTok)}}
	}
	return nil
}

func (e fsmEv) coq() string {
	return fmt.Sprintf("(%s, {| a_int := %s; a_uint := %s; a_err := %s; a_bool := %s; a_voucher := %s |})",
		eventName(e.Code), coqZ(e.Int), coqN(e.Uint), coqStr(e.Err), coqBool(e.Bool), coqVoucher(datatransfer.TypeIdentifier(e.VTyp), e.VTok))
}

func (e fsmEv) String() string {
	return fmt.Sprintf("%s(i=%d,u=%d,e=%q,b=%v,v=%s/%d)", eventName(e.Code), e.Int, e.Uint, e.Err, e.Bool, e.VTyp, e.VTok)
}

// eventsWithArgs lists every event code with representative arguments
func allEventVariants() []fsmEv {
	var out []fsmEv
	for code := datatransfer.Open; code <= datatransfer.SendMessageError; code++ {
		base := fsmEv{Code: code, VTyp: "", VTok: 0}
		switch code {
		case datatransfer.DataReceived, datatransfer.DataSent, datatransfer.DataQueued:
			for _, i := range []int64{0, 3, 9, -1} {
				e := base
				e.Int = i
				out = append(out, e)
			}
		case datatransfer.DataReceivedProgress, datatransfer.DataSentProgress, datatransfer.DataQueuedProgress:
			for _, u := range []uint64{0, 7, 1 << 63} {
				e := base
				e.Uint = u
				out = append(out, e)
			}
		case datatransfer.SetDataLimit:
			for _, u := range []uint64{0, 500} {
				e := base
				e.Uint = u
				out = append(out, e)
			}
		case datatransfer.Disconnected, datatransfer.SendDataError, datatransfer.ReceiveDataError, datatransfer.RequestCancelled, datatransfer.Error:
			for _, s := range []string{"E1", "prev"} {
				e := base
				e.Err = s
				out = append(out, e)
			}
		case datatransfer.SetRequiresFinalization:
			for _, b := range []bool{false, true} {
				e := base
				e.Bool = b
				out = append(out, e)
			}
		case datatransfer.NewVoucher, datatransfer.NewVoucherResult:
			e := base
			e.VTyp = "T2"
			e.VTok = 8
			out = append(out, e)
		default:
			out = append(out, base)
		}
	}
	return out
}

// seed variants for a status
func seedVariants(status datatransfer.Status, tid uint64, selfTok int) []*channels.VerifChannelState {
	mk := func() *channels.VerifChannelState {
		return &channels.VerifChannelState{
			SelfPeer: peerOf(selfTok), TransferID: datatransfer.TransferID(tid),
			Initiator: peerOf(1), Responder: peerOf(2), BaseCid: cidOf(1),
			Selector: channels.VerifNode{Node: nodeOf(2)}, Sender: peerOf(1), Recipient: peerOf(2),
			Status:   status,
			Vouchers: []channels.VerifEncodedVoucher{{Type: "T1", Voucher: channels.VerifNode{Node: nodeOf(3)}}},
			Stages:   &datatransfer.ChannelStages{},
		}
	}
	v0 := mk()
	v1 := mk()
	v1.Queued, v1.Sent, v1.Received = 10, 20, 30
	v1.QueuedBlocksTotal, v1.SentBlocksTotal, v1.ReceivedBlocksTotal = 3, 4, 5
	v1.DataLimit, v1.RequiresFinalization, v1.ResponderPaused = 100, true, true
	v1.Message = "prev"
	v1.TotalSize = 77
	v1.VoucherResults = []channels.VerifEncodedVoucherResult{{Type: "R1", VoucherResult: channels.VerifNode{Node: nodeOf(4)}}}
	v1.Stages.AddLog(statusName(status), "data transfer disconnected: prev")
	v1.Stages.AddLog("Requested", "x")
	v2 := mk()
	v2.InitiatorPaused = true
	v2.Stages = nil
	v2.Sender, v2.Recipient = peerOf(2), peerOf(1) // pull
	v2.Received = 1<<64 - 3
	v2.Queued = 1 << 63
	v2.Sent = 1<<64 - 7
	v2.ReceivedBlocksTotal, v2.QueuedBlocksTotal, v2.SentBlocksTotal = 9, 9, 9
	v3 := mk()
	v3.InitiatorPaused, v3.ResponderPaused = true, true
	// self is the responder of a push it received
	v3.Initiator, v3.Responder, v3.Sender, v3.Recipient = peerOf(2), peerOf(1), peerOf(2), peerOf(1)
	v3.Stages.AddLog(statusName(status), "received data")
	v3.Stages.AddLog(statusName(status), "got new voucher")
	v3.Vouchers = append(v3.Vouchers, channels.VerifEncodedVoucher{Type: "T1", Voucher: channels.VerifNode{Node: nodeOf(5)}})
	return []*channels.VerifChannelState{v0, v1, v2, v3}
}

// one harness step: a plain event, or (when gated) e1 then e2 sent while e1's cleanup handler is held
type fsmStep struct {
	ev    fsmEv
	gated bool
	ev2   fsmEv
}

func (s fsmStep) coq() string {
	if s.gated {
		return fmt.Sprintf("HGated %s %s", s.ev.coq(), s.ev2.coq())
	}
	return "HEv " + s.ev.coq()
}

func plain(evs []fsmEv) []fsmStep {
	var out []fsmStep
	for _, e := range evs {
		out = append(out, fsmStep{ev: e})
	}
	return out
}

type fsmCaseOut struct {
	id     int
	label  string
	seed   string
	steps  []fsmStep
	evs    []fsmEv
	oks    []bool
	final  string
	notifs []notif
	calls  []envCall
}

func (c fsmCaseOut) coq() string {
	var evs, oks, ns, cl, up []string
	for _, st := range c.steps {
		evs = append(evs, st.coq())
	}
	for _, o := range c.oks {
		oks = append(oks, coqBool(o))
	}
	for _, n := range c.notifs {
		ns = append(ns, fmt.Sprintf("(%s, %s)", eventName(n.Code), n.View))
	}
	for _, k := range c.calls {
		switch k.Kind {
		case "cleanup":
			cl = append(cl, coqChid(k.Chid))
		case "unprotect":
			up = append(up, fmt.Sprintf("(%s, %s)", coqN(uint64(tokOfPeer(k.Peer))), coqChidFromTag(k.Tag)))
		}
	}
	return fmt.Sprintf("mkFsmCase %s %s\n  %s\n  (mkFsmObs %s %s\n   %s %s %s)",
		coqN(uint64(c.id)), c.seed, coqList(evs), coqList(oks), c.final, coqList(ns), coqList(cl), coqList(up))
}

// the Unprotect tag is chid.String() = "<initiator>-<responder>-<id>"
func coqChidFromTag(tag string) string {
	for a := 1; a <= 8; a++ {
		for b := 1; b <= 8; b++ {
			prefix := fmt.Sprintf("%s-%s-", peerOf(a), peerOf(b))
			if strings.HasPrefix(tag, prefix) {
				var id uint64
				fmt.Sscanf(tag[len(prefix):], "%d", &id)
				return fmt.Sprintf("(%s, %s, %s)", coqN(uint64(a)), coqN(uint64(b)), coqN(id))
			}
		}
	}
	return "(99%N, 99%N, 99%N)"
}

func writeFsmCases(dir, name string, cases []fsmCaseOut) {
	const shard = 300
	for i := 0; i*shard < len(cases) || i == 0; i++ {
		lo, hi := i*shard, (i+1)*shard
		if hi > len(cases) {
			hi = len(cases)
		}
		var b strings.Builder
		b.WriteString("From Coq Require Import List NArith ZArith String.\nFrom DT Require Import GenStatus GenEvent FsmTypes GenFsm Fsm Machine View FsmCorr.\nImport ListNotations.\nLocal Open Scope string_scope.\n\n")
		b.WriteString("Definition cases : list fsm_case := [\n")
		for j, c := range cases[lo:hi] {
			b.WriteString(c.coq())
			if j != hi-lo-1 {
				b.WriteString(";\n")
			}
		}
		b.WriteString("\n].\n\nDefinition M := Eval vm_compute in mismatches cases.\nPrint M.\n")
		writeFile(filepath.Join(dir, fmt.Sprintf("cases_%s_%03d.v", name, i)), b.String())
	}
}

// runCase executes one seeded history on the rig
func (r *fsmRig) runCase(id int, label string, tid uint64, seed *channels.VerifChannelState, evs []fsmEv) fsmCaseOut {
	return r.runSteps(id, label, tid, seed, plain(evs))
}

func (r *fsmRig) runSteps(id int, label string, tid uint64, seed *channels.VerifChannelState, steps []fsmStep) fsmCaseOut {
	initTok, sTok, rTok := tokOfPeer(seed.Initiator), tokOfPeer(seed.Sender), tokOfPeer(seed.Recipient)
	chid := r.create(tid, initTok, sTok, rTok, 1, 2, datatransfer.TypedVoucher{Type: "T1", Voucher: nodeOf(3)})
	r.seed(chid, seed)
	ncalls := len(r.env.snapshot())
	nops0 := r.ds.nops()
	out := fsmCaseOut{id: id, label: label, seed: coqChanRaw(seed, r.res), steps: steps}
	for _, st := range steps {
		out.evs = append(out.evs, st.ev)
		if !st.gated {
			err := r.ch.VerifSend(chid, st.ev.Code, st.ev.args()...)
			out.oks = append(out.oks, err == nil)
			r.quiesce(chid)
			continue
		}
		out.evs = append(out.evs, st.ev2)
		gate := make(chan struct{})
		entered := make(chan datatransfer.ChannelID, 4)
		r.env.mu.Lock()
		r.env.gate, r.env.entered = gate, entered
		r.env.mu.Unlock()
		err1 := r.ch.VerifSend(chid, st.ev.Code, st.ev.args()...)
		select {
		case <-entered:
		case <-time.After(5 * time.Second):
			r.res.fail(monitorFailure{Property: "C09", CaseID: id, Signature: "ending-did-not-start-cleanup:" + eventName(st.ev.Code) + "@" + statusName(seed.Status),
				What: "an ending event did not start the cleanup procedure within 5s", Input: label})
		}
		err2 := r.ch.VerifSend(chid, st.ev2.Code, st.ev2.args()...)
		r.env.mu.Lock()
		r.env.gate, r.env.entered = nil, nil
		r.env.mu.Unlock()
		close(gate)
		out.oks = append(out.oks, err1 == nil, err2 == nil)
		r.quiesce(chid)
	}
	st, _ := r.rawState(chid)
	out.final = coqChanRaw(st, r.res)
	out.notifs = r.takeNotifs(chid)
	all := r.env.snapshot()
	out.calls = all[ncalls:]
	// C17: every datastore write of this channel is announced exactly once, in order, with the
	// record that was written; C19: voucher logs only grow, by at most one entry per event
	var writes []*channels.VerifChannelState
	key := r.keyOf[chid].String()
	for _, o := range r.ds.ops()[nops0:] {
		if o.Put && o.Key == key {
			var ws channels.VerifChannelState
			if err := ws.UnmarshalCBOR(bytes.NewReader(o.Val)); err == nil {
				writes = append(writes, &ws)
			}
		}
	}
	{
		// written records appear, in order, among the announced snapshots
		j := 0
		for _, w := range writes {
			wv := coqView(channels.VerifFromInternal(*w), nil)
			for j < len(out.notifs) && out.notifs[j].View != wv {
				j++
			}
			if j == len(out.notifs) {
				r.res.fail(monitorFailure{Property: "C17", CaseID: id, Signature: "write-not-announced",
					What: "a record written to the datastore was never announced (or out of order)", Input: label})
				break
			}
			j++
		}
		if n := len(out.notifs); n > 0 && out.notifs[n-1].View != coqView(channels.VerifFromInternal(*st), nil) {
			r.res.fail(monitorFailure{Property: "C17", CaseID: id, Signature: "last-snapshot-not-final-state",
				What: "the last announced snapshot differs from the durable record", Input: label})
		}
		prevV, prevR := len(seed.Vouchers), len(seed.VoucherResults)
		ip, rp := seed.InitiatorPaused, seed.ResponderPaused
		for _, n := range out.notifs {
			nv, nr := len(n.St.Vouchers()), len(n.St.VoucherResults())
			if nv < prevV || nr < prevR || nv > prevV+1 || nr > prevR+1 {
				r.res.fail(monitorFailure{Property: "C19", CaseID: id, Signature: "log-not-append-only",
					What: "a voucher log shrank or grew by more than one entry in one event", Input: label})
			}
			if nv == prevV+1 && n.Code != datatransfer.NewVoucher || nr == prevR+1 && n.Code != datatransfer.NewVoucherResult {
				r.res.fail(monitorFailure{Property: "C19", CaseID: id, Signature: "log-grew-on-other-event",
					What: "a voucher log grew on an event other than NewVoucher/NewVoucherResult", Input: label})
			}
			prevV, prevR = nv, nr
			// C11: flags follow exactly the pause/resume actions of each party
			switch n.Code {
			case datatransfer.PauseInitiator:
				ip = true
			case datatransfer.ResumeInitiator:
				ip = false
			case datatransfer.PauseResponder, datatransfer.DataLimitExceeded:
				rp = true
			case datatransfer.ResumeResponder:
				rp = false
			}
			if n.St.InitiatorPaused() != ip || n.St.ResponderPaused() != (rp || n.St.Status() == datatransfer.Finalizing) {
				r.res.fail(monitorFailure{Property: "C11", CaseID: id, Signature: "flags-do-not-follow-actions:" + eventName(n.Code),
					What: "pause flags differ from the pause/resume actions applied so far", Input: label})
				break
			}
		}
	}
	// direct monitors (model independent)
	r.monitorCase(id, label, seed, out.evs, st, out)
	r.monitorCleanup(id, label, seed, steps, st, out)
	return out
}

// monitorCleanup (C09): with only bookkeeping events arriving while a cleanup handler runs,
// the cleanup procedure (CleanupChannel + Unprotect) runs exactly once and the channel settles
func (r *fsmRig) monitorCleanup(id int, label string, seed *channels.VerifChannelState, steps []fsmStep, final *channels.VerifChannelState, out fsmCaseOut) {
	if len(steps) != 1 || !steps[0].gated || isTerminal(seed.Status) {
		return
	}
	e1, e2 := steps[0].ev, steps[0].ev2
	ending := map[datatransfer.EventCode]datatransfer.Status{datatransfer.Cancel: datatransfer.Cancelled, datatransfer.Error: datatransfer.Failed, datatransfer.Complete: datatransfer.Completed}
	want, isEnding := ending[e1.Code]
	// local lifecycle events may legitimately redirect an ending; nothing else may: in particular
	// no message from the counterparty arriving while a cancel / failure is cleaning up
	lifecycle := map[datatransfer.EventCode]bool{datatransfer.Open: true, datatransfer.Cancel: true, datatransfer.Error: true, datatransfer.Complete: true,
		datatransfer.BeginFinalizing: true, datatransfer.CleanupComplete: true, datatransfer.CompleteCleanupOnRestart: true}
	if !isEnding || e2.Code == datatransfer.CompleteCleanupOnRestart {
		return
	}
	if !bookkeepingEvents[e2.Code] && (e1.Code == datatransfer.Complete || lifecycle[e2.Code]) {
		return
	}
	cleanups, unprotects := 0, 0
	for _, c := range out.calls {
		if c.Kind == "cleanup" {
			cleanups++
		}
		if c.Kind == "unprotect" {
			unprotects++
		}
	}
	if cleanups != 1 || unprotects != 1 {
		r.res.fail(monitorFailure{Property: "C09", CaseID: id, Signature: "cleanup-count:" + fmt.Sprintf("%d", cleanups) + ":event-queued-during-cleanup",
			What:  fmt.Sprintf("cleanup procedure ran %d times (unprotect %d) for one entry into a cleanup status; an event that is not a local lifecycle event was queued while the cleanup handler ran", cleanups, unprotects),
			Input: label, Observed: cleanups, Expected: 1})
	}
	if final.Status != want {
		r.res.fail(monitorFailure{Property: "C09", CaseID: id, Signature: "did-not-settle:" + eventName(e1.Code),
			What: "channel did not settle in the matching terminal status", Input: label, Observed: statusName(final.Status), Expected: statusName(want)})
	}
}

func isTerminal(s datatransfer.Status) bool {
	return s == datatransfer.Completed || s == datatransfer.Failed || s == datatransfer.Cancelled
}

var bookkeepingEvents = map[datatransfer.EventCode]bool{
	datatransfer.DataReceived: true, datatransfer.DataSent: true, datatransfer.DataQueued: true,
	datatransfer.DataReceivedProgress: true, datatransfer.DataSentProgress: true, datatransfer.DataQueuedProgress: true,
	datatransfer.PauseInitiator: true, datatransfer.ResumeInitiator: true, datatransfer.PauseResponder: true,
	datatransfer.ResumeResponder: true, datatransfer.DataLimitExceeded: true,
	datatransfer.NewVoucher: true, datatransfer.NewVoucherResult: true, datatransfer.SetDataLimit: true,
	datatransfer.SetRequiresFinalization: true, datatransfer.Disconnected: true, datatransfer.SendDataError: true,
	datatransfer.ReceiveDataError: true, datatransfer.RequestCancelled: true, datatransfer.Opened: true,
	datatransfer.Restart: true, datatransfer.CompleteCleanupOnRestart: true,
	datatransfer.RequestTimedOut: true, datatransfer.TransferRequestQueued: true, datatransfer.SendMessageError: true,
}

var endingEvents = map[datatransfer.EventCode]bool{
	datatransfer.Open: true, datatransfer.Cancel: true, datatransfer.Error: true, datatransfer.CleanupComplete: true,
	datatransfer.Complete: true, datatransfer.BeginFinalizing: true,
}

// dataProjection: counters, pause flags, limits, voucher logs (what lifecycle events must not touch)
func dataProjection(cs datatransfer.ChannelState, rawRPaused *bool) string {
	rp := cs.ResponderPaused()
	if rawRPaused != nil {
		rp = *rawRPaused
	}
	var vs []string
	for _, v := range cs.Vouchers() {
		vs = append(vs, coqTyped(v))
	}
	for _, v := range cs.VoucherResults() {
		vs = append(vs, "R"+coqTyped(v))
	}
	return fmt.Sprint(cs.Queued(), cs.Sent(), cs.Received(), cs.QueuedCidsTotal(), cs.SentCidsTotal(), cs.ReceivedCidsTotal(),
		cs.DataLimit(), cs.RequiresFinalization(), cs.InitiatorPaused(), rp, cs.TotalSize(), vs)
}

// monitorCase: property statements evaluated directly on what the implementation did
func (r *fsmRig) monitorCase(id int, label string, seed *channels.VerifChannelState, evs []fsmEv, final *channels.VerifChannelState, out fsmCaseOut) {
	// C02: a terminal record never changes and nothing is announced for it
	if isTerminal(seed.Status) {
		a, b := coqChanRaw(seed, nil), coqChanRaw(final, nil)
		if a != b || len(out.notifs) != 0 || len(out.calls) != 0 {
			r.res.fail(monitorFailure{Property: "C02", CaseID: id, Signature: "terminal-changed:" + statusName(seed.Status) + ":" + eventName(evs[0].Code),
				What: "event on a terminal channel changed the record, was announced, or ran cleanup", Input: label, Observed: b, Expected: a})
		}
	}
	// C09: a terminal status is only reached with a cleanup run before it
	injected := seed.Status == datatransfer.Cancelling || seed.Status == datatransfer.Failing || seed.Status == datatransfer.Completing
	for _, e := range evs {
		if e.Code == datatransfer.CleanupComplete {
			injected = true // only the verif hook can send it from outside; the public API cannot
		}
	}
	if !injected && !isTerminal(seed.Status) && isTerminal(final.Status) {
		cleanups := 0
		for _, c := range out.calls {
			if c.Kind == "cleanup" {
				cleanups++
			}
		}
		if cleanups == 0 {
			r.res.fail(monitorFailure{Property: "C09", CaseID: id, Signature: "terminal-without-cleanup", What: "terminal status reached without a cleanup run", Input: label})
		}
	}
	// C03 on single-event cases: bookkeeping keeps the status, lifecycle keeps the data
	if len(evs) == 1 && len(out.notifs) >= 1 && !isTerminal(seed.Status) {
		e := evs[0]
		after := out.notifs[0].St
		if bookkeepingEvents[e.Code] && !(e.Code == datatransfer.ResumeResponder && seed.Status == datatransfer.Finalizing) {
			if after.Status() != seed.Status {
				r.res.fail(monitorFailure{Property: "C03", CaseID: id, Signature: "bookkeeping-changed-status:" + eventName(e.Code) + "@" + statusName(seed.Status),
					What: "a bookkeeping event changed the lifecycle status", Input: label, Observed: statusName(after.Status()), Expected: statusName(seed.Status)})
			}
		}
		if !bookkeepingEvents[e.Code] {
			before := dataProjection(channels.VerifFromInternal(*seed), &seed.ResponderPaused)
			got := dataProjection(channels.VerifFromInternal(*final), &final.ResponderPaused)
			if before != got {
				r.res.fail(monitorFailure{Property: "C03", CaseID: id, Signature: "lifecycle-changed-data:" + eventName(e.Code) + "@" + statusName(seed.Status),
					What: "a lifecycle event changed counters, pause flags, limits or voucher logs", Input: label, Observed: got, Expected: before})
			}
		}
	}
	// C03, the completion rule itself, on the single-event cases of the table: both signals in either
	// order complete, a paused (finalizing) Complete does not, the un-answered request completes
	// locally, a responder enters Finalizing and is released from it
	if len(evs) == 1 && len(out.notifs) >= 1 {
		e := evs[0]
		after := out.notifs[0].St.Status()
		expect := func(want datatransfer.Status, sig, what string) {
			if after != want {
				for _, prop := range []string{"C03", "C01"} {
					r.res.fail(monitorFailure{Property: prop, CaseID: id, Signature: sig + ":" + eventName(e.Code) + "@" + statusName(seed.Status),
						What: what, Input: label, Observed: statusName(after), Expected: statusName(want)})
				}
			}
		}
		switch {
		case e.Code == datatransfer.FinishTransfer && seed.Status == datatransfer.ResponderCompleted:
			expect(datatransfer.Completing, "both-signals-do-not-complete", "the responder's Complete was seen, the own transport finishes: the channel must complete")
		case e.Code == datatransfer.ResponderCompletes && seed.Status == datatransfer.TransferFinished:
			expect(datatransfer.Completing, "both-signals-do-not-complete", "the own transport finished, the responder's Complete arrives: the channel must complete")
		case e.Code == datatransfer.ResponderCompletes && seed.Status == datatransfer.ResponderFinalizingTransferFinished:
			expect(datatransfer.Completing, "final-complete-does-not-complete", "after a paused Complete and the own transport's finish, the final Complete must complete the channel")
		case e.Code == datatransfer.ResponderCompletes && seed.Status == datatransfer.ResponderFinalizing:
			expect(datatransfer.ResponderCompleted, "final-complete-alone-completes", "the final Complete after a paused one, with the own transport still running, must wait for the transport's finish")
		case e.Code == datatransfer.ResponderBeginsFinalization && (seed.Status == datatransfer.Ongoing || seed.Status == datatransfer.Queued):
			expect(datatransfer.ResponderFinalizing, "paused-complete-completes", "a paused (finalizing) Complete alone must not complete the channel")
		case e.Code == datatransfer.FinishTransfer && seed.Status == datatransfer.ResponderFinalizing:
			expect(datatransfer.ResponderFinalizingTransferFinished, "paused-complete-completes", "a paused (finalizing) Complete plus the own transport's finish must wait for the final Complete")
		case e.Code == datatransfer.ResponderBeginsFinalization && seed.Status == datatransfer.TransferFinished:
			expect(datatransfer.ResponderFinalizingTransferFinished, "paused-complete-completes", "a paused (finalizing) Complete after the own transport's finish must wait for the final Complete")
		case e.Code == datatransfer.FinishTransfer && seed.Status == datatransfer.AwaitingAcceptance:
			expect(datatransfer.Completing, "local-only-completion-lost", "a request that was never answered completes locally when its transport finishes")
		case e.Code == datatransfer.FinishTransfer && (seed.Status == datatransfer.Ongoing || seed.Status == datatransfer.Queued):
			expect(datatransfer.TransferFinished, "one-signal-completes", "the own transport's finish alone must not complete the channel")
		case e.Code == datatransfer.ResponderCompletes && (seed.Status == datatransfer.Ongoing || seed.Status == datatransfer.Queued):
			expect(datatransfer.ResponderCompleted, "one-signal-completes", "the responder's Complete alone must not complete the channel")
		case e.Code == datatransfer.BeginFinalizing && (seed.Status == datatransfer.Ongoing || seed.Status == datatransfer.Queued):
			expect(datatransfer.Finalizing, "finalizing-not-entered", "a responder that requires finalization enters Finalizing")
		case e.Code == datatransfer.ResumeResponder && seed.Status == datatransfer.Finalizing:
			expect(datatransfer.Completing, "finalizing-not-released", "a resume releases a finalizing responder, which then completes")
		}
	}
	// C03 on histories of the initiator's normal flow from an accepted status
	if seed.Status == datatransfer.Queued || seed.Status == datatransfer.Ongoing {
		normal, ft, rc := true, false, false
		for i, e := range evs {
			if endingEvents[e.Code] {
				normal = false
			}
			if e.Code == datatransfer.FinishTransfer {
				ft = true
			}
			if e.Code == datatransfer.ResponderCompletes {
				rc = true
			}
			_ = i
		}
		if normal {
			reachedCompleting := final.Status == datatransfer.Completing || final.Status == datatransfer.Completed
			for _, n := range out.notifs {
				if n.St.Status() == datatransfer.Completing {
					reachedCompleting = true
				}
			}
			if reachedCompleting && !(ft && rc) {
				r.res.fail(monitorFailure{Property: "C03", CaseID: id, Signature: "completed-without-both",
					What: "initiator channel reached Completing without both FinishTransfer and ResponderCompletes", Input: label})
			}
		}
	}
}

func runH1Table(dir string, seedv uint64, tier string) {
	res := newResult("fsmtable", seedv, tier)
	rig := newFsmRig(res, 1, nil)
	var cases []fsmCaseOut
	id := 0
	tid := uint64(1000)
	evs := allEventVariants()
	for st := datatransfer.Requested; st <= datatransfer.AwaitingAcceptance; st++ {
		for vi := 0; vi < 4; vi++ {
			for _, e := range evs {
				tid++
				id++
				selfTok := 1
				seed := seedVariants(st, tid, selfTok)[vi]
				label := fmt.Sprintf("status=%s variant=%d event=%s", statusName(st), vi, e)
				res.CaseLabels = append(res.CaseLabels, label)
				if onlyCase != 0 && onlyCase != id {
					continue
				}
				c := rig.runCase(id, label, tid, seed, []fsmEv{e})
				cases = append(cases, c)
				res.hist("event:" + eventName(e.Code))
				res.hist("status:" + statusName(st))
				res.distinct(c.seed + "|" + e.coq())
				if id%997 == 1 {
					res.sample(map[string]interface{}{"case": label, "oks": c.oks, "notifications": len(c.notifs), "env_calls": len(c.calls)})
				}
			}
		}
	}
	res.Cases = len(cases)
	res.Exhaustive = true
	res.Rule = "exhaustive product: 19 statuses x 4 seeded record variants x all 36 event codes with representative arguments; every case is non-trivial (distinct seed record and event); the record is seeded directly in the datastore and the event is sent through the real channels.Channels"
	writeFsmCases(dir, "fsmtable", cases)
	res.write(dir)
	_ = rig.ch.Stop(context.Background())
}

// ---------- fsmhist: enumerated and generated event histories ----------

func randEvent(r *rng, codes []datatransfer.EventCode) fsmEv {
	e := fsmEv{Code: codes[r.intn(len(codes))]}
	e.Int = int64(r.intn(12)) - 1
	switch r.intn(6) {
	case 0:
		e.Uint = 0
	case 1:
		e.Uint = 1 << 63
	default:
		e.Uint = uint64(r.intn(1000))
	}
	e.Err = []string{"E1", "E2", ""}[r.intn(3)]
	e.Bool = r.chance(50)
	e.VTyp = []string{"T1", "T2"}[r.intn(2)]
	e.VTok = 1 + r.intn(6)
	return e
}

func histLabel(st datatransfer.Status, evs []fsmEv) string {
	var names []string
	for _, e := range evs {
		names = append(names, e.String())
	}
	return fmt.Sprintf("start=%s history=[%s]", statusName(st), strings.Join(names, " "))
}

func runH1Hist(dir string, seedv uint64, tier string) {
	res := newResult("fsmhist", seedv, tier)
	rig := newFsmRig(res, 1, nil)
	r := newRng(seedv)
	var cases []fsmCaseOut
	id := 0
	tid := uint64(500000)
	run := func(st datatransfer.Status, variant int, evs []fsmEv, kind string) {
		tid++
		id++
		label := kind + " " + histLabel(st, evs)
		res.CaseLabels = append(res.CaseLabels, label)
		if onlyCase != 0 && onlyCase != id {
			return
		}
		seed := seedVariants(st, tid, 1)[variant]
		c := rig.runCase(id, label, tid, seed, evs)
		cases = append(cases, c)
		res.hist("kind:" + kind)
		res.hist(fmt.Sprintf("len:%02d", len(evs)))
		st2, _ := rig.rawState(datatransfer.ChannelID{Initiator: seed.Initiator, Responder: seed.Responder, ID: seed.TransferID})
		res.hist("final:" + statusName(st2.Status))
		if len(evs) >= 2 {
			res.distinct(c.seed + "|" + label)
		}
		if id%211 == 1 {
			res.sample(map[string]interface{}{"case": label, "final": statusName(st2.Status), "notifications": len(c.notifs)})
		}
	}
	// (a) enumerated: all sequences up to length 4 (quick: 3) over the completion signals and two bookkeeping events
	alpha := []fsmEv{{Code: datatransfer.FinishTransfer}, {Code: datatransfer.ResponderCompletes},
		{Code: datatransfer.ResponderBeginsFinalization}, {Code: datatransfer.DataReceived, Int: 4}, {Code: datatransfer.PauseResponder}}
	maxLen := 3
	if tier == "thorough" {
		maxLen = 5
	}
	var rec func(prefix []fsmEv, st datatransfer.Status)
	rec = func(prefix []fsmEv, st datatransfer.Status) {
		if len(prefix) > 0 {
			run(st, 0, append([]fsmEv(nil), prefix...), "enum-signals")
		}
		if len(prefix) == maxLen {
			return
		}
		for _, a := range alpha {
			rec(append(prefix, a), st)
		}
	}
	for _, st := range []datatransfer.Status{datatransfer.Queued, datatransfer.Ongoing} {
		rec(nil, st)
	}
	// (b) generated normal-flow histories of an accepted initiator
	var normalCodes, allCodes []datatransfer.EventCode
	for c := datatransfer.Open; c <= datatransfer.SendMessageError; c++ {
		allCodes = append(allCodes, c)
		if !endingEvents[c] {
			normalCodes = append(normalCodes, c)
		}
	}
	nb := 150
	ng := 250
	if tier == "thorough" {
		nb, ng = 3000, 5000
	}
	for i := 0; i < nb; i++ {
		n := 3 + r.intn(20)
		var evs []fsmEv
		for j := 0; j < n; j++ {
			if r.chance(25) {
				evs = append(evs, fsmEv{Code: []datatransfer.EventCode{datatransfer.FinishTransfer, datatransfer.ResponderCompletes, datatransfer.ResponderBeginsFinalization}[r.intn(3)]})
			} else {
				evs = append(evs, randEvent(r, normalCodes))
			}
		}
		st := []datatransfer.Status{datatransfer.Queued, datatransfer.Ongoing}[r.intn(2)]
		run(st, r.intn(4), evs, "gen-normal-flow")
	}
	// (c) generated unrestricted histories from every status (endings, cleanup, terminal tails)
	for i := 0; i < ng; i++ {
		n := 2 + r.intn(25)
		var evs []fsmEv
		for j := 0; j < n; j++ {
			evs = append(evs, randEvent(r, allCodes))
		}
		st := datatransfer.Status(r.intn(19))
		if r.chance(60) {
			st = []datatransfer.Status{datatransfer.Requested, datatransfer.Ongoing, datatransfer.Queued, datatransfer.AwaitingAcceptance}[r.intn(4)]
		}
		run(st, r.intn(4), evs, "gen-any")
	}
	res.Cases = len(cases)
	res.Exhaustive = false
	res.Rule = fmt.Sprintf("enumerated: every sequence of length <= %d over {FinishTransfer, ResponderCompletes, ResponderBeginsFinalization, DataReceived, PauseResponder} from Queued and Ongoing; generated: normal-flow histories of an accepted initiator (3-22 events) and unrestricted histories (2-26 events) from seeded statuses, one splitmix64 stream; non-trivial = at least 2 events, distinct = distinct (seed record, history)", maxLen)
	writeFsmCases(dir, "fsmhist", cases)
	res.write(dir)
	_ = rig.ch.Stop(context.Background())
}

// ---------- fsmcleanup: ending events with another event queued while the cleanup handler runs ----------

func runH1Cleanup(dir string, seedv uint64, tier string) {
	res := newResult("fsmcleanup", seedv, tier)
	rig := newFsmRig(res, 1, nil)
	var cases []fsmCaseOut
	id := 0
	tid := uint64(900000)
	var seconds []fsmEv
	for code := datatransfer.Open; code <= datatransfer.SendMessageError; code++ {
		if code == datatransfer.RequestTimedOut || code == datatransfer.TransferRequestQueued || code == datatransfer.SendMessageError {
			continue // unknown to the processor: Send fails, nothing is queued
		}
		e := fsmEv{Code: code, Int: 5, Uint: 9, Err: "E2", Bool: true, VTyp: "T2", VTok: 6}
		seconds = append(seconds, e)
	}
	endings := []fsmEv{{Code: datatransfer.Cancel}, {Code: datatransfer.Error, Err: "E1"}, {Code: datatransfer.Complete}}
	for st := datatransfer.Requested; st <= datatransfer.AwaitingAcceptance; st++ {
		if isTerminal(st) {
			continue
		}
		for _, e1 := range endings {
			for _, e2 := range seconds {
				tid++
				id++
				variant := id % 4
				label := fmt.Sprintf("status=%s variant=%d first=%s held-at-gate second=%s", statusName(st), variant, e1, e2)
				res.CaseLabels = append(res.CaseLabels, label)
				if onlyCase != 0 && onlyCase != id {
					continue
				}
				seed := seedVariants(st, tid, 1)[variant]
				c := rig.runSteps(id, label, tid, seed, []fsmStep{{ev: e1, gated: true, ev2: e2}})
				cases = append(cases, c)
				res.hist("first:" + eventName(e1.Code))
				res.hist("second:" + eventName(e2.Code))
				res.distinct(label)
				if id%301 == 1 {
					res.sample(map[string]interface{}{"case": label, "env_calls": len(c.calls), "notifications": len(c.notifs)})
				}
			}
		}
	}
	res.Cases = len(cases)
	res.Exhaustive = true
	res.Rule = "exhaustive product: 16 non-terminal statuses x {Cancel, Error, Complete} x every event code known to the processor (33) sent while the cleanup handler is held at a gate inside env.CleanupChannel; every case non-trivial and distinct"
	writeFsmCases(dir, "fsmcleanup", cases)
	res.write(dir)
	_ = rig.ch.Stop(context.Background())
}

// ---------- fsmpause: all interleavings of pause/resume actions by both parties ----------

func runH1Pause(dir string, seedv uint64, tier string) {
	res := newResult("fsmpause", seedv, tier)
	rig := newFsmRig(res, 1, nil)
	var cases []fsmCaseOut
	id := 0
	tid := uint64(3000000)
	alpha := []fsmEv{{Code: datatransfer.PauseInitiator}, {Code: datatransfer.ResumeInitiator}, {Code: datatransfer.PauseResponder}, {Code: datatransfer.ResumeResponder}}
	maxLen := 3
	if tier == "thorough" {
		maxLen = 5
	}
	for st := datatransfer.Requested; st <= datatransfer.AwaitingAcceptance; st++ {
		if isTerminal(st) {
			continue
		}
		var rec func(prefix []fsmEv)
		rec = func(prefix []fsmEv) {
			if len(prefix) > 0 {
				tid++
				id++
				label := "pause-interleaving " + histLabel(st, prefix)
				res.CaseLabels = append(res.CaseLabels, label)
				if onlyCase == 0 || onlyCase == id {
					seed := seedVariants(st, tid, 1)[id%4]
					c := rig.runCase(id, label, tid, seed, append([]fsmEv(nil), prefix...))
					cases = append(cases, c)
					res.hist("status:" + statusName(st))
					res.hist(fmt.Sprintf("len:%d", len(prefix)))
					if len(prefix) >= 2 {
						res.distinct(label)
					}
					if id%397 == 1 {
						res.sample(map[string]interface{}{"case": label, "notifications": len(c.notifs)})
					}
				}
			}
			if len(prefix) == maxLen {
				return
			}
			for _, a := range alpha {
				rec(append(prefix, a))
			}
		}
		rec(nil)
	}
	res.Cases = len(cases)
	res.Exhaustive = true
	res.Rule = fmt.Sprintf("exhaustive: every sequence of length <= %d over {PauseInitiator, ResumeInitiator, PauseResponder, ResumeResponder} from each of the 16 non-terminal statuses, rotating over 4 seeded record variants (both roles, both directions); non-trivial = at least 2 actions", maxLen)
	writeFsmCases(dir, "fsmpause", cases)
	res.write(dir)
	_ = rig.ch.Stop(context.Background())
}
