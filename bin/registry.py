"""Per-property configuration of bin/check: theorem file, suites, trusted base."""

TRUSTED_BASE_COMMON = [
    "Coq 8.16.1 kernel and coqc (full .vo build through coq_makefile/make; no -vos/-vok); vm_compute is used "
    "for finite-domain checker lemmas and for evaluating the model on harness cases; no native_compute",
    "no Axiom/Parameter/Conjecture/Admitted/admit anywhere in coq/ (grep gate in bin/check fails the check otherwise)",
    "translator tools/dt2coq (Go, go/parser): regenerates GenStatus/GenEvent/GenMsgType/GenFsm (and GenMigrate, GenSchema, GenPred, "
    "GenTimeCounter) from /repo on every run, cross-checked behaviourally by the exhaustive fsmtable differential against the running "
    "channels.Channels; GenDecide.v holds the small decision functions translated statement by statement (LeaveRequestPaused, "
    "requestError, the pause / party / counter accessors of channel_state.go, the cache-seeding readers and the wiring of the block "
    "reports in channels.go), each proved equal to the hand-written model's definition in proofs/DecideEq.v; the translator refuses "
    "any statement or expression outside its subset",
    "gen/GenHandlers.v: the manager's handlers (impl/utils.go, impl/restart.go, every API call of impl/impl.go, "
    "every EventsHandler callback of impl/events.go, all of impl/receiving_requests.go and impl/receiver.go, and the "
    "event methods of channels/channels.go) translated by tools/dt2coq/handlers.go, statement by statement, into programs over Node.v's "
    "instruction set; proofs/HandlerEq.v proves each generated program equal in behaviour (same final interpreter state, same outputs, same "
    "returned error class) to the hand-written program of Node.v the theorems are about, for every state and every oracle answer; the "
    "translator skips logging / tracing / span-index statements and the transport-option and channel-monitor wiring (not in the node model), "
    "orders a `go func(){...}()` after the rest of the function's effects (the order the harness forces) and refuses anything else",
    "gen/GenCaches.v: the three decisions of channels/caches.go (does a report advance the high-water mark and to what; the pause signal "
    "from limit and total after the one atomic add; what a limit update does to the cache) translated from fixed statement shapes by "
    "tools/dt2coq/caches.go; proofs/CacheEq.v proves Caches.fire / Caches.set_limit are built from exactly these decisions",
    "correspondence harness /verif/harness (Go, built from /repo's working tree with -tags verif): doubles, printers of "
    "cases_*.v, canonicalisation; correspondence is differential testing, exhaustive only where stated",
    "go-statemachine / go-statestore / go-ds-versioning are modelled (coq/model/Machine.v), not verified",
]

FSM_CORR = ["corr/FsmCorr.v"]
NODE_CORR = ["corr/FsmCorr.v", "corr/CacheCorr.v", "corr/NodeCorr.v", "corr/TransportCorr.v"]


def P(props, suites, technique, level_text, level_note, corr=None, level="proof", assumptions=None, explanation="", trusted=None):
    return {"props": props, "corr": corr or FSM_CORR, "level": level, "suites": [{"name": n} if isinstance(n, str) else n for n in suites],
            "technique": technique, "level_text": level_text, "level_note": level_note,
            "assumptions": assumptions or [], "explanation": explanation, "trusted_base": trusted or []}

GO_SM = "go-statemachine semantics (one event planned at a time, handler started after Plan, triggers appended at the queue tail) are modelled in Machine.v and validated by correspondence, not verified"

PROPS = {
    "C03": {
        "props": "props/C03.v",
        "corr": NODE_CORR,
        "level": "proof",
        "suites": [{"name": "fsmtable"}, {"name": "fsmhist"}, {"name": "nodeapi"}, {"name": "nodevalidate"}],
        "trusted_base": [],
        "assumptions": [
            "histories are sequences of FSM events applied in plan order (go-statemachine processes one event at a time)",
            "the initiator's 'normal flow' alphabet excludes Open, Cancel, Error, CleanupComplete, Complete, BeginFinalizing",
        ],
        "technique": "Coq theorems over the FSM table regenerated from channels_fsm.go (finite checkers by vm_compute lifted with forallb_forall + induction over histories); exhaustive table differential and history correspondence against the real channels.Channels",
        "level_text": "Machine-checked proof (Coq 8.16.1) over every history of the generated transition table: Completing needs both FinishTransfer and the un-paused Complete, both orders complete, bookkeeping never changes status, lifecycle never changes data, Finalizing holds until released. The table is regenerated from source each run and go-statemachine semantics are tied to the code by an exhaustive 19x4x36 differential.",
        "level_note": "Assumes go-statemachine applies events one at a time in queue order (modelled in Machine.v, validated by correspondence); translator and harness are trusted as described in DESIGN.md section 5; responder-side choice BeginFinalizing vs Complete is covered at node level (C04/C08 suites).",
        "explanation": "theorems over the transition table regenerated from channels_fsm.go; the table and go-statemachine "
                       "semantics are tied to the running code by an exhaustive (status x record variant x event) differential",
    },
    "C04": P("props/C04.v", ["nodevalidate", "nodeflow", "noderestart"],
        "Coq theorems over the manager's handler programs (free monad over 13 instructions): acceptRequest succeeds only after the registered validator answered accepted without error, otherwise the channel set is unchanged; reply accepted iff validated; enumerated validator-outcome grid on the real manager with direct monitors",
        "Machine-checked proof about the handler programs of Node.v for every state, message and oracle answer; Node.v is tied to impl/*.go by the node correspondence (exhaustive validator-outcome grid x request kind x path, UpdateValidationStatus in 9 situations) which also runs every call under recover.",
        "The handlers are modelled by hand (correspondence = differential testing, exhaustive over the stated grid); restart / revalidation paths are covered by correspondence and monitors, the theorems are about new requests; 'does not crash' = no call panicked in any suite (two panics were found and fixed, see KNOWN_FINDINGS.txt)",
        corr=NODE_CORR),
    "C05": P("props/C05.v", ["nodepeers", "noderestart", "nodeflow", "transport", "nodemonitor"],
        "Coq theorem: a step whose input names channel k (built from the authenticated sender) leaves every other channel's record and caches unchanged, for every handler program (key discipline enforced by the interpreter run_keyed and proved generically); exhaustive sender x message kind x id product and restart-request mutations on the real manager",
        "Machine-checked frame theorem for every input, sender and oracle answer; strangers and role-confused senders cannot name an existing channel (key built from the authenticated peer). The honour conditions of restart requests are enumerated (every single-field mutation) against the real code with direct monitors.",
        "Authenticated remote peer is libp2p's / graphsync's contract (assumed); the key discipline is part of the model's step function and is therefore itself validated by the correspondence (a handler that touched another key would disagree with the model)",
        corr=NODE_CORR),
    "C10": P("props/C10.v", ["noderestart", "nodeflow", "transport", "e2erestart"],
        "Coq theorems lifted to every node history: identity (id, peers, base cid, selector), opening voucher and log prefixes, block indexes are preserved by every input incl. all restart paths and process restarts; re-issued request shape; enumerated restart product on the real manager with direct monitors (progress unchanged, no channel created, original request re-issued, revalidation before asking)",
        "Machine-checked invariants over all histories of the node model plus an enumerated product (4 roles x statuses x progress / second voucher x process restart x every restart path) on the real code.",
        "Transport-level clauses (skip count = received blocks, previous request cancelled first, queued messages delivered once) are theorems over Transport.v tied by the transport suite; byte totals under restart are covered by C07's restart theorem and the monitors",
        corr=NODE_CORR),
    "C18": P("props/C18.v", ["nodepeers", "nodeflow", "gsnode"],
        "Coq theorems: ids issued by atomic increments are distinct and strictly increasing for any number of calls; a later manager starts above an earlier one under the stated clock hypothesis; creating an existing id fails and frames; monitors on the real manager (ids increasing, duplicate new request refused and framing)",
        "Machine-checked proof on the counter model and the node model; the Go primitive's atomicity (atomic.AddUint64) is assumed and stress-validated.",
        "clock non-decreasing and fewer ids issued than nanoseconds elapsed (explicit hypothesis of the theorem)",
        corr=NODE_CORR),
    "C02": P("props/C02.v", ["fsmtable", "fsmhist", "nodeterminal", "nodeflow", "migrate"],
        "Coq theorem over every schedule of the go-statemachine model (terminal record frozen, every later event dropped) on the finality list regenerated from channels_fsm.go; exhaustive terminal-status differential and direct frozen-record monitor on the real channels.Channels",
        "Machine-checked proof for all schedules (sends, plans, handler completions, reopen) that a record in Completed/Failed/Cancelled never changes and produces no announcement, write, cleanup or un-protect. Tied to the code by the regenerated finality list and by running every event against every seeded terminal record.",
        GO_SM + "; the manager handlers are the hand-written Node.v programs, tied to impl/*.go by the node correspondence suites (nodeterminal is the exhaustive terminal product)",
        corr=NODE_CORR + ["corr/MigrateCorr.v"],
        assumptions=["a reopened datastore yields a fresh machine on the stored record (m_init)"]),
    "C07": P("props/C07.v", ["fsmreports", "fsmrace", "transport", "e2erestart", "migrate"],
        "Coq theorems (invariant by induction over report histories with restarts; closed payload formula) over Caches.fire and the generated FSM actions; correspondence of the real Channels.DataQueued/DataSent/DataReceived incl. cache contents against the model; direct totals monitors",
        "Machine-checked proof for every direction, block function and well-shaped history with process restarts anywhere: byte total = summed size of unique blocks at distinct reported positions (mod 2^64), index = highest position; replays and non-unique blocks never count; for arbitrary report lists total = sum of reports that advanced the lazily seeded mark.",
        "The concurrent clause is a theorem over all interleavings of a micro-step model (Conc.v: read-locked lookup, write-locked seed with re-check, atomic load, CAS, FSM-serialized events); it is tied to the code by the fsmrace suite, where the Go scheduler picks the interleaving (not enumerated) and the verdict is membership of the observed outcome in the set of sequential outcomes; atomicity of Go's CompareAndSwapInt64 / RWMutex and GetByID's synchronisation with the FSM queue are assumed; crash points are between reports (C07's quantifier)",
        corr=NODE_CORR + ["corr/RaceCorr.v", "corr/MigrateCorr.v"]),
    "C08": P("props/C08.v", ["fsmreports", "nodeapi", "nodevalidate", "migrate"],
        "Coq theorems over Caches.fire/set_limit (pause iff the advancing report brings the limited total to or past a non-zero limit; cache and store agree; restart re-seeds) ; enumerated limit boundaries (every prefix sum -1/0/+1, restart between reports) against the real Channels",
        "Machine-checked proof of the pause rule at cache/FSM level for all reports and limits, with the cache-consistency invariant preserved by reports, SetDataLimit and restarts. Manager-level resume/reject rules are in the node suites.",
        "Sequential reporters; 'no further payload while paused' is graphsync's contract (assumed, see C01); the manager's resume / stay-paused / reject rules are in Node.v (update_validation) and are tied to the code by the enumerated limit rounds of nodeapi with a direct resume-rule monitor",
        corr=NODE_CORR + ["corr/MigrateCorr.v"]),
    "C09": P("props/C09.v", ["fsmcleanup", "fsmtable", "nodeapi", "nodevalidate", "noderestart", "crash", "transport"],
        "Coq theorems over every schedule of the go-statemachine model: cleanup runs = handler starts, handler starts only on entering a cleanup status or CompleteCleanupOnRestart, terminal only via cleanup, endings settle; regenerated entry function and table; exhaustive gated-handler product on the real channels.Channels",
        "Machine-checked proof for all schedules at machine level; the cleanup entry function body and the table are regenerated from channels_fsm.go each run; the real FSM is driven through every (status x ending x event queued while the cleanup handler is held) case.",
        GO_SM + "; 'settles' assumes the handler goroutine is scheduled; closing through the manager is covered by nodeapi (close monitors), closing at the transport by the transport suite",
        corr=NODE_CORR + ["corr/CrashCorr.v"]),
    "C11": P("props/C11.v", ["fsmpause", "nodeapi", "nodevalidate", "transport", "e2e"],
        "Coq theorems over the generated actions (only a party's own pause/resume events write its flag; flags follow actions where valid; invalid requests leave the record unchanged; derived views); exhaustive pause/resume interleavings on the real channels.Channels",
        "Machine-checked proof at FSM level for every record and event, with all pause/resume interleavings up to the tier's length enumerated against the real code in every status.",
        "manager-level effects (transport pause/resume, announcement messages, stay-paused rule) are in Node.v and tied to the code by nodeapi with direct monitors",
        corr=NODE_CORR),
    "C16": P("props/C16.v", ["transport", "gsnode", "e2erestart"],
        "Coq theorems over the adaptor model Transport.tstep: every handler call of a request-keyed callback carries the owner channel, unknown requests / missing extensions / cleaned-up channels are silent (with the reachable-state invariant that mapped requests belong to tracked channels), off-wire blocks unaccounted, commands on the current request, completion reported once, stores registered for the lifetime; the real Transport over a fake GraphExchange is compared step by step incl. its bookkeeping snapshot",
        "Machine-checked proof over the hand-written model of graphsync.go, tied to the real adaptor by close / restart products and generated callback sequences over several channels and requests with cleanup anywhere; direct owner-table monitors on the implementation.",
        "graphsync itself (which callbacks it makes, authenticated peer) is not modelled: callbacks are inputs; the blocking structure of open/close is modelled as sequential completion (the fake GraphExchange completes cancels at once), hangs are caught by the watchdog",
        corr=NODE_CORR),
    "C17": P("props/C17.v", ["fsmhist", "fsmcleanup", "nodeflow", "subs"],
        "Coq theorem over every schedule: announcements = applied events in plan order, snapshots chain by Fsm.apply, written records = announced records; correspondence compares every notification (event, full view) of the real notifier with the model",
        "Machine-checked proof at machine level (announcements) and over every history of subscription changes and notifications of the fan-out model Subs.v (per-transfer subscribers keyed by the full channel id and dropped at termination, global subscribers exactly once per event inside their window, none after unsubscribe); Subs.v is tied to impl.SubscribeToEvents / channelsubscriptions.go by the subs suite (call log of every subscriber incl. channels with colliding transfer ids).",
        GO_SM + "; the notifier FIFO goroutine of go-statemachine is assumed to preserve order (validated); subscription changes are made at quiescent points (a subscribe racing with a Publish is not exercised; go-pubsub's RWMutex is assumed); the order in which different subscribers are called for one event is not modelled",
        corr=NODE_CORR + ["corr/SubsCorr.v"]),
    "C19": P("props/C19.v", ["fsmtable", "fsmhist", "nodeapi", "nodevalidate", "migrate", "net"],
        "Coq theorems: accessor views of well-formed records agree (pull, channel id, other peer), well-formedness preserved by every event, voucher logs append-only with exactly the NewVoucher/NewVoucherResult entries, 'last' accessors; every state the harness sees goes through all real accessors under recover",
        "Machine-checked proof at FSM level plus a totality monitor on the implementation: every accessor of every observed state is called under recover and compared with the model view.",
        "node-level recording rules (voucher recorded only after a successful send, etc.) are in Node.v, tied by nodeapi with direct monitors",
        corr=NODE_CORR + ["corr/MigrateCorr.v", "corr/NetCorr.v"]),
    "C14": P("props/C14.v", ["monitor", "nodemonitor"],
        "Coq theorems over every schedule of a small-step model of channelmonitor.go (events, debounced call, restart loop positions, ConnectTo/Restart results, timers, spawned Shutdown as labels): one call in flight, queued restart performed once, attempts since the last data event bounded by the limit, close at most once, timers close iff they fire armed on a live monitor, shutdown after an ending event silences everything; the real monitor over a gated recording monitorAPI double is compared after every macro step, with direct monitors (overlap, double close, bound, lost queued restart, timers)",
        "Machine-checked proof over all schedules of the hand-written model; the model is tied to channelmonitor.go by enumerated failure patterns, queued-restart placements, data-reset rounds, real-timer cases and generated schedules, each macro step proved to be a schedule of the model.",
        "real time is abstracted (a timer firing is a label; the harness uses real short timers and discards, never judges, cases whose prefix ran late); the debounce library's coalescing of error bursts is not exercised (one error per step); the wiring of the monitor into the real manager (RestartDataTransferChannel re-entering AddPushChannel / AddPullChannel, close through the channel FSM) is covered by the enumerated nodemonitor suite with direct monitors only; interleavings inside a macro step (e.g. a data event between the counter increment and ConnectTo) are covered by the theorems but cannot be forced on the real code",
        corr=["corr/MonitorCorr.v"]),
    "C15": P("props/C15.v", ["net"],
        "Coq theorems over a model of network/libp2p_impl.go (openStream's retry loop by induction for every attempt cap, failure pattern and cancellation point; SendMessage's write / reset / close discipline; handleNewStream's dispatch) with libp2p as an oracle; the real libp2pDataTransferNetwork over a scripted host / stream double is compared on enumerated and generated scripts, with direct monitors (attempt cap, success iff an attempt succeeded, delivered exactly once, reset + report on write failure, no attempt after cancellation, dispatch by kind with the authenticated peer, malformed streams reset and reported without a handler call)",
        "Machine-checked proof over the hand-written model for all configurations and oracle answers; tied to the code by the enumerated product (configured attempts incl. 0 and non-integers x succeeding attempt x cancellation point x stream failures) and generated inbound byte streams of every message kind with truncations and garbage.",
        "libp2p host / stream behaviour is scripted (oracle), real time is abstracted: 'cancelled during the k-th back-off' is an input realised with a back-off long enough for the cancelled context to win, and promptness is judged only if a late return repeats on an idle machine; whether inbound bytes form a message is decided by the codec (C12's subject): the codec rejects trailing bytes, so a stream carrying more than one message is malformed as a whole; a protocol the message cannot be converted to returns an error without resetting or closing the stream (modelled as such, noted in DESIGN.md)",
        corr=["corr/NetCorr.v"]),
    "C13": P("props/C13.v", ["migrate"],
        "the record migration is TRANSLATED on every run from migrations.go (struct ChannelStateV2 -> record chan2, MigrateChannelState2To3 -> function migrate_2_3; unknown shapes refused) and the Coq theorems are about that function: all 21 shared fields preserved, status / pause-flag mapping, no field unassigned or unread; the migration run and readiness gate are a hand-written model of go-ds-versioning with theorems (all records migrated, failure changes nothing, any number of restarts idempotent, operations refused until ready, readiness announced once per listener); the real manager is started on generated version-2 datastores and compared record by record, then driven and restarted",
        "Machine-checked proof about the regenerated migration function for every version-2 record, and about the store-level model for every store; the model is tied to the code by starting the real manager on datastores written with the repository's ChannelStateV2 codec (every status, boundary values), with direct field-by-field monitors.",
        "go-ds-versioning (migration run, version key, readiness gate) is modelled, not verified; the version-2 records are encoded with the repository's own cbor-gen codec for ChannelStateV2 (the decoder used by the migration is its inverse; codec correctness is C12's subject); the legacy un-versioned store layout and undecodable version-2 records (which fail the whole migration) are out of the property's scope",
        corr=["corr/MigrateCorr.v"]),
    "C06": P("props/C06.v", ["crash", "statecodec", "fsmhist", "noderestart", "migrate"],
        "Coq theorems over every schedule of the go-statemachine model: at every write boundary the record on disk is the result of applying exactly a prefix of the applied events (chain theorem restricted to prefixes), written records = announced records, a record persisted in a cleanup status reaches the matching terminal status with one cleanup run on CompleteCleanupOnRestart; a Coq model of the record's byte codec (cbor-gen map encoding, embedded DAG-CBOR vouchers / selector, stage log tuples) with a machine-checked round trip for every record within the encoder's limits. The real Channels is driven through generated multi-channel histories and EVERY datastore-write boundary is reopened on a copy of the store and compared (raw record and accessor view) with the model's sequence of written records; the real MarshalCBOR / UnmarshalCBOR are compared byte for byte with the codec model on random records over the whole range of every field and on rearranged / truncated / extended encodings",
        "Machine-checked proof at machine level for all schedules and all boundaries, and at byte level for every record; tied to the code by reopening every write boundary of generated histories (several channels per store) with a fresh Channels, including restart of channels caught in a cleanup status, listing of channels, and the durability of every state a query returned, and by the byte-for-byte codec comparison.",
        GO_SM + "; the record codec model (StateCodec.v over Cbor.v) is hand-written and tied to internalchannel_cbor_gen.go / types_cbor_gen.go / CborGenCompatibleNode by the statecodec suite (differential testing: bytes written, and what each side reads from variants of them); the FSM-level record (FsmTypes.chan, vouchers as opaque tokens) and the byte-level record (StateCodec.cstate, vouchers as IPLD values) are two models, related only through the implementation by the crash suite; crash points are datastore-write boundaries (the datastore's own atomicity of a single Put is assumed); manager-level restart paths are in noderestart",
        corr=NODE_CORR + ["corr/CrashCorr.v", "corr/StateCorr.v", "corr/MigrateCorr.v"]),
    "C12": P("props/C12.v", ["wire", "net"],
        "a Coq model of DAG-CBOR (heads, canonical map order, links, floats as bit patterns) with a machine-checked decode(encode v) = canonical v for every well-formed IPLD value, a model of the bindnode mapping of the messages with a machine-checked round trip through the network and IPLD forms, key-order irrelevance, missing-body rejection, exactly-one-kind and the append-only numbering; the schema (keys, order, types, nullability, representation) and the kind predicates are TRANSLATED from schema.ipldsch and the Is* methods on every run and the layout theorems are about them; the real ToNet / ToIPLD / extension encoders' bytes are compared BYTE FOR BYTE with the model for every constructor over random IPLD payloads, and decoded by both",
        "Machine-checked proof for every message and every IPLD payload (64-bit ranges); the model's bytes equal the implementation's on every generated message, so the theorems are about the format actually written.",
        "go-ipld-prime's dagcbor / bindnode are modelled (Cbor.v, Wire.v), not verified: the tie is the byte-for-byte comparison; 'decoding arbitrary bytes never panics / never yields a missing body' is a theorem only for the model's decoder, for the real decoders it is a test (a stream of random and mutated inputs under recover) - partial; floats are opaque 64-bit patterns; strings are byte strings (no UTF-8 validation, as the code ships peer ids in text strings)",
        corr=["corr/WireCorr.v", "corr/NetCorr.v"]),
    "C20": dict(P("props/C20.v", ["gsnode", "transport", {"name": "stress", "race": True}, {"name": "e2erace", "race": True}],
        "lock-order part: a lock graph (mutexes, and every holder/callee/taker way one is acquired while another is held) is EXTRACTED on every run from the SSA form and VTA call graph of /repo by tools/lockgraph; Coq theorems: the extracted relation minus one committed, explained infeasible path admits a strictly increasing rank (acyclic, no lock re-acquired), and a rank excludes any cycle of threads each waiting for a lock the next holds; runtime part (tests, not proofs): every graphsync callback with every message kind returns (gsnode, exhaustive product, watchdog), race-instrumented stress of the manager API and of the real Transport under concurrent callbacks with re-entrant subscribers, Stop while active, no goroutine left blocked on a library lock",
        "Machine-checked acyclicity of the extracted lock order and a machine-checked no-deadlock theorem for any threads that respect it; data-race freedom and completion of every call are exercised under the race detector and watchdogs, which sample the scheduler's interleavings.",
        "level 'other': the theorem covers lock-order deadlocks among library mutexes only, under the soundness of the static extraction (calls through function values such as TransportOption closures and user subscribers are not resolved; all instances of a mutex type are merged; one path is excluded as infeasible with a written justification, see coq/model/Locks.v); data races, channel / goroutine waits and re-entrant subscriber calls are covered only by the race-instrumented stress suite and watchdogs (a test); the Go memory model and sync primitives are assumed",
        corr=["corr/TransportCorr.v"], level="other"), lockgraph=True),
    "C01": P("props/C01.v", ["e2e", "e2erestart", "nodeflow", "nodevalidate", "noderestart", "crash", "gsnode", "fsmrace", "fsmtable"],
        "control part, machine-checked over every history of the node model: a per-handler analysis (every handler, every input: which completion events it may raise on a channel, proved by symbolic execution of the handler programs) lifted through the go-statemachine model to a history invariant -- an initiator's channel is Completing / Completed only if its history contains the authenticated responder's final un-paused Complete and a successful completion of its own transport (or the transport completed while still awaiting acceptance); a responder puts a final Complete on the wire only from a local completion input; composed over an authentic network. Data part (a test): two real managers over real graphsync and the real libp2p data-transfer network on a mock network, payload shapes / limits raised in rounds / finalization / forced pause / pauses / per-channel stores, checking responder Completed, byte-identical payload at the receiver, Received = Queued = Sent = unique size",
        "Machine-checked proof of the control clause over all histories and oracle answers of the hand-written node model (tied to impl/*.go by the node suites); the data clause is checked on real nodes by the e2e suite.",
        "partial: graphsync's contract (a request reported complete has delivered every selected block; both ends report each block once with the same size) is assumed, so 'the receiver holds the data' and 'totals agree' are exercised by the e2e test only; interrupted transfers (link cut after k data events, either or both processes stopped and started again on their datastores, restart by either side, a second cut) are in the e2erestart suite; the node model's tie to the code is differential testing",
        corr=NODE_CORR + ["corr/CrashCorr.v", "corr/RaceCorr.v"], level="proof"),
}

HANDLERS_NOTE = (" The handler programs these theorems rest on are additionally REGENERATED from the Go source on every run "
                 "(tools/dt2coq/handlers.go -> gen/GenHandlers.v) and proved to run exactly like Node.v's programs for every interpreter "
                 "state (proofs/HandlerEq.v; restated in the property file as ..._are_the_sources), so a change to one of those functions "
                 "that is not behaviour-preserving breaks a proof obligation of this property even when no suite produces the input on which it matters.")
for _p in ("C01", "C02", "C03", "C04", "C05", "C07", "C08", "C09", "C10", "C11", "C18", "C19"):
    PROPS[_p]["technique"] += HANDLERS_NOTE

NOT_APPLICABLE = {}

# commits in /repo that add verif-tagged hook files
HOOK_COMMITS = ["8ac3d66", "16a421e", "57a8c4b", "20fab44"]
