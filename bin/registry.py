"""Per-property configuration of bin/check: theorem file, suites, trusted base."""

TRUSTED_BASE_COMMON = [
    "Coq 8.16.1 kernel and coqc (full .vo build through coq_makefile/make; no -vos/-vok); vm_compute is used "
    "for finite-domain checker lemmas and for evaluating the model on harness cases; no native_compute",
    "no Axiom/Parameter/Conjecture/Admitted/admit anywhere in coq/ (grep gate in bin/check fails the check otherwise)",
    "translator tools/dt2coq (Go, go/parser): regenerates GenStatus/GenEvent/GenMsgType/GenFsm from /repo on every run; "
    "cross-checked behaviourally by the exhaustive fsmtable differential against the running channels.Channels",
    "correspondence harness /verif/harness (Go, built from /repo's working tree with -tags verif): doubles, printers of "
    "cases_*.v, canonicalisation; correspondence is differential testing, exhaustive only where stated",
    "go-statemachine / go-statestore / go-ds-versioning are modelled (coq/model/Machine.v), not verified",
]

FSM_CORR = ["corr/FsmCorr.v"]

PROPS = {
    "C03": {
        "props": "props/C03.v",
        "corr": FSM_CORR,
        "level": "proof",
        "suites": [{"name": "fsmtable"}, {"name": "fsmhist"}],
        "trusted_base": [],
        "assumptions": [
            "histories are sequences of FSM events applied in plan order (go-statemachine processes one event at a time)",
            "the initiator's 'normal flow' alphabet excludes Open, Cancel, Error, CleanupComplete, Complete, BeginFinalizing",
        ],
        "technique": "Coq theorems over the FSM table regenerated from channels_fsm.go (finite checkers by vm_compute lifted with forallb_forall + induction over histories); exhaustive table differential and history correspondence against the real channels.Channels",
        "level_text": "Machine-checked proof (Coq 8.16.1) over every history of the generated transition table: Completing needs both FinishTransfer and the un-paused Complete, both orders complete, bookkeeping never changes status, lifecycle never changes data, Finalizing holds until released. The table is regenerated from source each run and go-statemachine semantics are tied to the code by an exhaustive 19x4x36 differential.",
        "level_note": "Assumes go-statemachine applies events one at a time in queue order (modelled in Machine.v, validated by correspondence); translator and harness are trusted as described in DESIGN.md section 5; responder-side choice BeginFinalizing vs Complete is covered at node level (C04/C08 suites).",
        "explanation": "theorems over the transition table regenerated from channels_fsm.go; the table and go-statemachine "
                       "semantics are tied to the running code by an exhaustive (status x record variant x event) differential",
    },
}

NOT_APPLICABLE = {}

# commits in /repo that add verif-tagged hook files
HOOK_COMMITS = ["8ac3d66"]
